"""minicql - an independent, small parser and interpreter for the CQL DML shapes that an object
mapper emits, with Cassandra's cell semantics on an in-memory table.  stdlib only; shares no
code with the driver under verification.

Two layers:

* `parse(text)` -> AST (`Insert`, `Update`, `Delete`, `Select`, `Batch`).  Bind markers are the
  python-named placeholders `%(name)s` (what a SimpleStatement carries before the driver
  substitutes text); every AST node can list the placeholders it contains in textual order,
  clause by clause (used by C37).
* `Database(schemas).execute(text, params)` -> list of row dicts, or `Applied` for conditional
  statements.  Values are python objects taken from `params` (None, scalars, set/frozenset,
  list/tuple, dict).

Semantics implemented (the trusted base; listed as assumptions by the checks that use it):

 S1  INSERT and UPDATE are upserts.  INSERT additionally writes the row's primary-key liveness
     marker; UPDATE does not.  A row exists iff it has a marker or at least one live non-key
     cell; a row written only by UPDATE disappears when its last cell is deleted.
 S2  Writing null to a column deletes the cell.  An empty set/list/map is stored as null
     (collections have no empty value); reading it back gives null.
 S3  Columns not named by a statement are left untouched.
 S4  Static columns live once per partition and are visible in every row of the partition; a
     partition holding only static cells reads back as one row with null clustering / regular
     columns.  An UPDATE or DELETE that touches only static columns must give only the partition
     key (clustering restrictions are rejected; INSERT accepts them); a
     statement that touches regular columns needs the full primary key (otherwise
     InvalidRequest), except DELETE without a column list, which deletes the whole partition
     (statics included) when given the partition key only.  DELETE without a column list and
     with the full primary key deletes the row (marker and cells) but not the statics.
 S5  set: `s = s + {..}` union, `s = s - {..}` difference.  list: `l = l + [..]` append,
     `l = [..] + l` prepend **keeping the literal's order** (Cassandra >= 2.1 behaviour),
     `l = l - [..]` removes every occurrence, `l[i] = v` / `DELETE l[i]` by index
     (InvalidRequest when out of range).  map: `m[k] = v` put (v null = delete key),
     `m = m + {..}` put all, `m = m - {k,..}` delete keys, `DELETE m[k]`.
     `col = <collection>` replaces the whole collection.
 S6  counter: only `c = c + n` / `c = c - n`; a missing counter counts from 0.
 S7  IF NOT EXISTS applies iff the row does not exist; IF EXISTS iff it exists; `IF c = v [AND ..]`
     iff every named column currently equals v (null equals a missing cell; a missing row fails
     any non-null comparison).  A non-applied statement changes nothing and returns
     `[applied]=False` with the existing values; an applied one returns `[applied]=True`.
 S8  BATCH: all statements are applied together; if any carries a condition all conditions are
     evaluated on the state before the batch and either all statements apply or none.  All
     writes of a batch share one timestamp, so two statements of one batch that write the same
     cell are resolved by Cassandra's tie rules rather than by order: that case raises
     `Unsupported` here instead of guessing.
 S9  USING TTL / TIMESTAMP are parsed and recorded but have no effect here (no time passes, and
     every statement is newer than all before it).
 S10 SELECT returns live rows in (partition insertion order, clustering order) with all schema
     columns (or the projection), nulls as None, static values repeated in each row.  WHERE is
     evaluated as a filter (=, IN, <, <=, >, >=, !=, CONTAINS [KEY]); token() restrictions are
     parsed but raise `Unsupported` when executed.
"""
import re


class ParseError(Exception):
    pass


class InvalidRequest(Exception):
    """Cassandra would reject the statement."""


class Unsupported(Exception):
    """Valid or unknown CQL whose semantics this model does not define."""


class HarnessBug(Exception):
    pass


# ------------------------------------------------------------------------------------ lexer
_TOKEN = re.compile(r'''
    (?P<ws>\s+)
  | (?P<ph>%\((?P<phname>[^)]*)\)s)
  | (?P<qid>"(?:[^"]|"")*")
  | (?P<str>'(?:[^']|'')*')
  | (?P<num>-?\d+(?:\.\d+)?)
  | (?P<id>[A-Za-z_][A-Za-z0-9_]*)
  | (?P<op><=|>=|!=|[=<>+\-\[\](),.;*?:{}])
''', re.X)


class Tok(object):
    __slots__ = ('kind', 'text', 'pos', 'end')

    def __init__(self, kind, text, pos, end):
        self.kind, self.text, self.pos, self.end = kind, text, pos, end

    def __repr__(self):
        return '%s:%r' % (self.kind, self.text)


def lex(text):
    out, i, n = [], 0, len(text)
    match = _TOKEN.match
    while i < n:
        m = match(text, i)
        if not m:
            raise ParseError('cannot lex at %d: %r' % (i, text[i:i + 20]))
        kind = m.lastgroup          # the outermost alternative that matched ('ph' closes after 'phname')
        end = m.end()
        if kind != 'ws':
            if kind == 'ph':
                t = m.group('phname')
            else:
                t = m.group(kind)
                if kind == 'qid':
                    t = t[1:-1].replace('""', '"')
                elif kind == 'str':
                    t = t[1:-1].replace("''", "'")
            out.append(Tok(kind, t, i, end))
        i = end
    out.append(Tok('eof', '', n, n))
    return out


# ------------------------------------------------------------------------------------ AST
class Placeholder(object):
    __slots__ = ('name',)

    def __init__(self, name):
        self.name = name

    def placeholders(self):
        return [self.name]

    def __repr__(self):
        return '?%s' % self.name


class Literal(object):
    __slots__ = ('value',)

    def __init__(self, value):
        self.value = value

    def placeholders(self):
        return []

    def __repr__(self):
        return 'lit(%r)' % (self.value,)


class Func(object):
    __slots__ = ('name', 'args')

    def __init__(self, name, args):
        self.name, self.args = name, args

    def placeholders(self):
        return [p for a in self.args for p in a.placeholders()]

    def __repr__(self):
        return '%s(%s)' % (self.name, ', '.join(map(repr, self.args)))


class Rel(object):
    """lhs: ('col', name) or ('token', [names]); op: '=', 'IN', '<', ..., 'CONTAINS',
    'CONTAINS KEY', 'LIKE', 'IS NOT NULL'; rhs: term or None."""
    __slots__ = ('lhs', 'op', 'rhs')

    def __init__(self, lhs, op, rhs):
        self.lhs, self.op, self.rhs = lhs, op, rhs

    def placeholders(self):
        return self.rhs.placeholders() if self.rhs is not None else []

    @property
    def column(self):
        return self.lhs[1] if self.lhs[0] == 'col' else None

    def __repr__(self):
        return 'Rel(%r %s %r)' % (self.lhs, self.op, self.rhs)


class Assign(object):
    """kind: 'set' (c = t), 'plus' (c = c + t), 'minus' (c = c - t), 'prepend' (c = t + c),
    'elem' (c[key] = t)."""
    __slots__ = ('kind', 'column', 'term', 'key')

    def __init__(self, kind, column, term, key=None):
        self.kind, self.column, self.term, self.key = kind, column, term, key

    def placeholders(self):
        return (self.key.placeholders() if self.key is not None else []) + self.term.placeholders()

    def __repr__(self):
        return 'Assign(%s %s %r %r)' % (self.kind, self.column, self.key, self.term)


class Selection(object):
    """DELETE selection: a column, or column[key]."""
    __slots__ = ('column', 'key')

    def __init__(self, column, key=None):
        self.column, self.key = column, key

    def placeholders(self):
        return self.key.placeholders() if self.key is not None else []

    def __repr__(self):
        return 'Sel(%s%s)' % (self.column, '' if self.key is None else '[%r]' % self.key)


class Statement(object):
    kind = None
    table = None
    using = None          # {'ttl': int, 'timestamp': int}
    where = ()
    conditions = ()
    if_exists = False
    if_not_exists = False

    def clauses(self):
        """[(clause kind, node)] in textual order; node.placeholders() gives its markers."""
        raise NotImplementedError

    def placeholders(self):
        return [p for _, node in self.clauses() for p in node.placeholders()]


class Insert(Statement):
    kind = 'INSERT'

    def __init__(self):
        self.columns, self.values = [], []

    def clauses(self):
        return [('value', Assign('set', c, v)) for c, v in zip(self.columns, self.values)]


class Update(Statement):
    kind = 'UPDATE'

    def __init__(self):
        self.assignments, self.where, self.conditions = [], [], []

    def clauses(self):
        return [('set', a) for a in self.assignments] + [('where', r) for r in self.where] + \
               [('if', c) for c in self.conditions]


class Delete(Statement):
    kind = 'DELETE'

    def __init__(self):
        self.selections, self.where, self.conditions = [], [], []

    def clauses(self):
        return [('delete', s) for s in self.selections] + [('where', r) for r in self.where] + \
               [('if', c) for c in self.conditions]


class Select(Statement):
    kind = 'SELECT'

    def __init__(self):
        self.columns, self.where, self.order_by = None, [], []
        self.count = self.distinct = self.allow_filtering = False
        self.limit = None

    def clauses(self):
        return [('where', r) for r in self.where]


class Batch(Statement):
    kind = 'BATCH'

    def __init__(self):
        self.batch_type, self.statements = None, []

    def clauses(self):
        return [c for s in self.statements for c in s.clauses()]


# ------------------------------------------------------------------------------------ parser
_REL_OPS = ('=', '<', '>', '<=', '>=', '!=')


class _Parser(object):
    def __init__(self, text):
        self.text = text
        self.toks = lex(text)
        self.i = 0

    # -- token helpers
    def peek(self, k=0):
        return self.toks[min(self.i + k, len(self.toks) - 1)]

    def next(self):
        t = self.toks[self.i]
        self.i += 1
        return t

    def is_kw(self, word, k=0):
        t = self.peek(k)
        return t.kind == 'id' and t.text.upper() == word

    def accept_kw(self, *words):
        for k, w in enumerate(words):
            if not self.is_kw(w, k):
                return False
        self.i += len(words)
        return True

    def expect_kw(self, *words):
        if not self.accept_kw(*words):
            raise ParseError('expected %s at %d, found %r in %r' % (' '.join(words), self.peek().pos, self.peek(), self.text))

    def is_op(self, op, k=0):
        t = self.peek(k)
        return t.kind == 'op' and t.text == op

    def accept_op(self, op):
        if self.is_op(op):
            self.i += 1
            return True
        return False

    def expect_op(self, op):
        if not self.accept_op(op):
            raise ParseError('expected %r at %d, found %r in %r' % (op, self.peek().pos, self.peek(), self.text))

    # -- pieces
    def ident(self):
        t = self.next()
        if t.kind == 'qid':
            return t.text
        if t.kind == 'id':
            return t.text.lower()
        raise ParseError('expected identifier at %d, found %r in %r' % (t.pos, t, self.text))

    def table_name(self):
        a = self.ident()
        if self.accept_op('.'):
            return (a, self.ident())
        return (None, a)

    def term(self):
        t = self.peek()
        if t.kind == 'ph':
            self.i += 1
            return Placeholder(t.text)
        if t.kind == 'num':
            self.i += 1
            return Literal(float(t.text) if '.' in t.text else int(t.text))
        if t.kind == 'str':
            self.i += 1
            return Literal(t.text)
        if t.kind == 'id' and self.is_op('(', 1):
            name = self.next().text.lower()
            self.expect_op('(')
            args = []
            if not self.is_op(')'):
                args.append(self.term())
                while self.accept_op(','):
                    args.append(self.term())
            self.expect_op(')')
            return Func(name, args)
        if t.kind == 'id' and t.text.upper() in ('NULL', 'TRUE', 'FALSE'):
            self.i += 1
            return Literal({'NULL': None, 'TRUE': True, 'FALSE': False}[t.text.upper()])
        if t.kind == 'op' and t.text == '(':
            self.i += 1
            items = [self.term()]
            while self.accept_op(','):
                items.append(self.term())
            self.expect_op(')')
            return Func('tuple', items)
        raise ParseError('expected a term at %d, found %r in %r' % (t.pos, t, self.text))

    def using(self):
        out = {}
        if self.accept_kw('USING'):
            while True:
                if self.accept_kw('TTL'):
                    out['ttl'] = self.int_lit()
                elif self.accept_kw('TIMESTAMP'):
                    out['timestamp'] = self.int_lit()
                else:
                    raise ParseError('bad USING option at %d in %r' % (self.peek().pos, self.text))
                if not self.accept_kw('AND'):
                    break
        return out

    def int_lit(self):
        t = self.next()
        if t.kind != 'num' or '.' in t.text:
            raise ParseError('expected integer at %d, found %r in %r' % (t.pos, t, self.text))
        return int(t.text)

    def relation(self):
        if self.is_kw('TOKEN') and self.is_op('(', 1):
            self.i += 2
            cols = [self.ident()]
            while self.accept_op(','):
                cols.append(self.ident())
            self.expect_op(')')
            lhs = ('token', cols)
        else:
            lhs = ('col', self.ident())
        t = self.peek()
        if t.kind == 'op' and t.text in _REL_OPS:
            self.i += 1
            return Rel(lhs, t.text, self.term())
        if self.accept_kw('IN'):
            return Rel(lhs, 'IN', self.term())
        if self.accept_kw('CONTAINS', 'KEY'):
            return Rel(lhs, 'CONTAINS KEY', self.term())
        if self.accept_kw('CONTAINS'):
            return Rel(lhs, 'CONTAINS', self.term())
        if self.accept_kw('LIKE'):
            return Rel(lhs, 'LIKE', self.term())
        if self.accept_kw('IS', 'NOT', 'NULL'):
            return Rel(lhs, 'IS NOT NULL', None)
        raise ParseError('expected relation operator at %d, found %r in %r' % (t.pos, t, self.text))

    def where(self):
        rels = []
        if self.accept_kw('WHERE'):
            rels.append(self.relation())
            while self.accept_kw('AND'):
                rels.append(self.relation())
        return rels

    def if_clause(self, st):
        if self.accept_kw('IF'):
            if self.accept_kw('NOT', 'EXISTS'):
                st.if_not_exists = True
            elif self.accept_kw('EXISTS'):
                st.if_exists = True
            else:
                st.conditions.append(self.relation())
                while self.accept_kw('AND'):
                    st.conditions.append(self.relation())
            return True
        return False

    # -- statements
    def statement(self):
        if self.is_kw('INSERT'):
            return self.insert()
        if self.is_kw('UPDATE'):
            return self.update()
        if self.is_kw('DELETE'):
            return self.delete()
        if self.is_kw('SELECT'):
            return self.select()
        if self.is_kw('BEGIN'):
            return self.batch()
        raise ParseError('unknown statement start %r in %r' % (self.peek(), self.text))

    def insert(self):
        st = Insert()
        self.expect_kw('INSERT', 'INTO')
        st.table = self.table_name()
        self.expect_op('(')
        st.columns.append(self.ident())
        while self.accept_op(','):
            st.columns.append(self.ident())
        self.expect_op(')')
        self.expect_kw('VALUES')
        self.expect_op('(')
        st.values.append(self.term())
        while self.accept_op(','):
            st.values.append(self.term())
        self.expect_op(')')
        if len(st.columns) != len(st.values):
            raise ParseError('INSERT with %d columns and %d values: %r' % (len(st.columns), len(st.values), self.text))
        st.conditions = []
        self.if_clause(st)
        if st.if_exists or st.conditions:
            raise ParseError('INSERT only supports IF NOT EXISTS: %r' % self.text)
        st.using = self.using()
        return st

    def update(self):
        st = Update()
        self.expect_kw('UPDATE')
        st.table = self.table_name()
        st.using = self.using()
        self.expect_kw('SET')
        st.assignments.append(self.assignment())
        while self.accept_op(','):
            st.assignments.append(self.assignment())
        st.where = self.where()
        while self.if_clause(st):
            pass
        return st

    def assignment(self):
        col = self.ident()
        if self.accept_op('['):
            key = self.term()
            self.expect_op(']')
            self.expect_op('=')
            return Assign('elem', col, self.term(), key)
        self.expect_op('=')
        t = self.peek()
        if t.kind in ('qid', 'id') and not self.is_op('(', 1) and not (t.kind == 'id' and t.text.upper() in ('NULL', 'TRUE', 'FALSE')):
            other = self.ident()
            if other != col:
                raise ParseError('assignment %r = %r ...: only self-reference is valid CQL (%r)' % (col, other, self.text))
            if self.accept_op('+'):
                return Assign('plus', col, self.term())
            if self.accept_op('-'):
                return Assign('minus', col, self.term())
            raise ParseError('expected + or - at %d in %r' % (self.peek().pos, self.text))
        term = self.term()
        if self.accept_op('+'):
            other = self.ident()
            if other != col:
                raise ParseError('assignment %r = term + %r: only self-reference is valid CQL (%r)' % (col, other, self.text))
            return Assign('prepend', col, term)
        return Assign('set', col, term)

    def delete(self):
        st = Delete()
        self.expect_kw('DELETE')
        if not self.is_kw('FROM'):
            st.selections.append(self.selection())
            while self.accept_op(','):
                st.selections.append(self.selection())
        self.expect_kw('FROM')
        st.table = self.table_name()
        st.using = self.using()
        if 'ttl' in st.using:
            raise ParseError('DELETE does not take a TTL: %r' % self.text)
        st.where = self.where()
        while self.if_clause(st):
            pass
        return st

    def selection(self):
        col = self.ident()
        if self.accept_op('['):
            key = self.term()
            self.expect_op(']')
            return Selection(col, key)
        return Selection(col)

    def select(self):
        st = Select()
        self.expect_kw('SELECT')
        if self.accept_kw('DISTINCT'):
            st.distinct = True
        if self.accept_op('*'):
            st.columns = None
        elif self.is_kw('COUNT') and self.is_op('(', 1):
            self.i += 2
            st.count = True
            if self.accept_op('*'):
                st.columns = None
            else:
                st.columns = [self.ident()]
                while self.accept_op(','):
                    st.columns.append(self.ident())
            self.expect_op(')')
        else:
            st.columns = [self.ident()]
            while self.accept_op(','):
                st.columns.append(self.ident())
        self.expect_kw('FROM')
        st.table = self.table_name()
        st.where = self.where()
        if self.accept_kw('ORDER', 'BY'):
            while True:
                c = self.ident()
                d = 'ASC'
                if self.accept_kw('ASC'):
                    d = 'ASC'
                elif self.accept_kw('DESC'):
                    d = 'DESC'
                st.order_by.append((c, d))
                if not self.accept_op(','):
                    break
        if self.accept_kw('LIMIT'):
            st.limit = self.int_lit()
        if self.accept_kw('ALLOW', 'FILTERING'):
            st.allow_filtering = True
        return st

    def batch(self):
        st = Batch()
        self.expect_kw('BEGIN')
        if self.accept_kw('UNLOGGED'):
            st.batch_type = 'UNLOGGED'
        elif self.accept_kw('COUNTER'):
            st.batch_type = 'COUNTER'
        self.expect_kw('BATCH')
        st.using = self.using()
        while not self.is_kw('APPLY'):
            if self.peek().kind == 'eof':
                raise ParseError('unterminated batch: %r' % self.text)
            inner = self.statement()
            if inner.kind not in ('INSERT', 'UPDATE', 'DELETE'):
                raise ParseError('%s inside a batch: %r' % (inner.kind, self.text))
            st.statements.append(inner)
            self.accept_op(';')
        self.expect_kw('APPLY', 'BATCH')
        return st


def parse(text):
    p = _Parser(text)
    st = p.statement()
    p.accept_op(';')
    if p.peek().kind != 'eof':
        raise ParseError('trailing input at %d: %r in %r' % (p.peek().pos, p.peek(), text))
    return st


_MARKER = re.compile(r'%\(([^)]*)\)s')


def all_placeholders(text):
    """Every `%(name)s` marker occurring in the text, in order (purely lexical, not via the
    grammar; cqlengine never puts values into the text, so a marker cannot hide in a literal)."""
    return _MARKER.findall(text)


# ------------------------------------------------------------------------------------ schema
class Table(object):
    """columns: {name: kind} with kind in scalar|set|list|map|counter."""

    def __init__(self, keyspace, name, partition_key, clustering, columns, static=()):
        self.keyspace, self.name = keyspace, name
        self.pk, self.ck = list(partition_key), list(clustering)
        self.kinds = dict(columns)
        self.static = set(static)
        for c in self.pk + self.ck:
            if c in self.kinds:
                raise ValueError('key column %s listed among data columns' % c)
        if self.static and not self.ck:
            raise ValueError('static columns need a clustering column')
        self.order = self.pk + self.ck + [c for c in self.kinds]
        self.is_counter = any(k == 'counter' for k in self.kinds.values())


class Applied(object):
    def __init__(self, applied, existing=None):
        self.applied, self.existing = applied, existing or {}

    def rows(self):
        r = {'[applied]': self.applied}
        if not self.applied:
            r.update(self.existing)
        return [r]

    def __repr__(self):
        return 'Applied(%r, %r)' % (self.applied, self.existing)


def norm(v):
    """Canonical stored form of a CQL value (S2: empty collection == null)."""
    if isinstance(v, (set, frozenset)):
        return frozenset(norm(x) for x in v) or None
    if isinstance(v, (list, tuple)):
        return tuple(norm(x) for x in v) or None
    if isinstance(v, dict):
        d = dict((norm(k), norm(x)) for k, x in v.items())
        return tuple(sorted(d.items(), key=_sort_key)) or None
    if isinstance(v, bytearray):
        return bytes(v)
    return v


def _sort_key(x):
    return (type(x).__name__, repr(x)) if not isinstance(x, (int, float)) or isinstance(x, bool) else ('num', x)


def _sk(x):
    try:
        return (0, x)
    except Exception:
        return (1, repr(x))


def denorm(kind, v):
    """Stored form -> python value handed back in rows."""
    if v is None:
        return None
    if kind == 'set':
        return set(v)
    if kind == 'list':
        return list(v)
    if kind == 'map':
        return dict(v)
    return v


class _Mut(object):
    """One cell-level mutation produced by a statement (for batch conflict detection)."""
    __slots__ = ('where', 'column', 'fn')

    def __init__(self, where, column, fn):
        self.where, self.column, self.fn = where, column, fn


class Database(object):
    def __init__(self, tables):
        self.tables = {}
        self.data = {}
        for t in tables:
            self.tables[(t.keyspace, t.name)] = t
            self.data[(t.keyspace, t.name)] = {}     # pk tuple -> {'static': {}, 'rows': {ck: {'marker':bool,'cells':{}}}}
        self.default_keyspace = None

    # ---------------------------------------------------------------- public
    def execute(self, text, params=None):
        st = parse(text)
        return self.run(st, params or {})

    def snapshot(self):
        """Hashable canonical content (for state deduplication)."""
        out = []
        for tk in sorted(self.data, key=repr):
            parts = []
            for pk, part in self.data[tk].items():
                rows = tuple(sorted(((ck, r['marker'], tuple(sorted(r['cells'].items(), key=lambda kv: kv[0])))
                                     for ck, r in part['rows'].items()), key=lambda x: repr(x[0])))
                parts.append((pk, tuple(sorted(part['static'].items())), rows))
            out.append((tk, tuple(sorted(parts, key=repr))))
        return tuple(out)

    def read_row(self, table_key, pk, ck=None):
        """Row dict as SELECT * WHERE <full primary key> would give it, or None."""
        t = self.tables[table_key]
        part = self.data[table_key].get(tuple(pk))
        if part is None:
            return None
        for row in self._partition_rows(t, tuple(pk), part):
            if not t.ck or tuple(row[c] for c in t.ck) == tuple(ck):
                return row
        return None

    def read_static(self, table_key, pk):
        t = self.tables[table_key]
        part = self.data[table_key].get(tuple(pk))
        if part is None:
            return None
        return dict((c, denorm(t.kinds[c], part['static'].get(c))) for c in t.static)

    # ---------------------------------------------------------------- dispatch
    def run(self, st, params):
        if st.kind == 'SELECT':
            return self._select(st, params)
        if st.kind == 'BATCH':
            return self._batch(st, params)
        return self._apply([st], params)

    def _table(self, st):
        ks, name = st.table
        if ks is None:
            ks = self.default_keyspace
        try:
            return (ks, name), self.tables[(ks, name)]
        except KeyError:
            raise InvalidRequest('unconfigured table %s.%s' % (ks, name))

    def _val(self, term, params):
        if isinstance(term, Placeholder):
            if term.name not in params:
                raise InvalidRequest('no value bound for placeholder %%(%s)s' % term.name)
            return params[term.name]
        if isinstance(term, Literal):
            return term.value
        if isinstance(term, Func) and term.name == 'tuple':
            return tuple(self._val(a, params) for a in term.args)
        raise Unsupported('function %s' % term.name)

    # ---------------------------------------------------------------- key resolution
    def _keys(self, t, where, params, need_ck, allow_partition_only):
        """Resolve a WHERE of equalities/INs on key columns to [(pk, ck or None)]."""
        eq = {}
        for r in where:
            if r.lhs[0] != 'col':
                raise Unsupported('token() restriction in a modification')
            c = r.column
            if c not in t.pk and c not in t.ck:
                raise InvalidRequest('non PRIMARY KEY column %s in WHERE of a modification' % c)
            if c in eq:
                raise InvalidRequest('column %s restricted twice' % c)
            if r.op == '=':
                v = self._val(r.rhs, params)
                if v is None:
                    raise InvalidRequest('null value for key column %s' % c)
                eq[c] = [v]
            elif r.op == 'IN':
                vs = list(self._val(r.rhs, params))
                if any(v is None for v in vs):
                    raise InvalidRequest('null in IN for key column %s' % c)
                eq[c] = vs
            else:
                raise Unsupported('operator %s on key column in a modification' % r.op)
        for c in t.pk:
            if c not in eq:
                raise InvalidRequest('Some partition key parts are missing: %s' % c)
        given_ck = [c for c in t.ck if c in eq]
        if given_ck != t.ck[:len(given_ck)]:
            raise InvalidRequest('clustering column restricted without its predecessors')
        full_ck = len(given_ck) == len(t.ck)
        if need_ck and not full_ck:
            raise InvalidRequest('Some clustering keys are missing: %s' % ', '.join(c for c in t.ck if c not in eq))
        if not full_ck and given_ck and not allow_partition_only:
            raise Unsupported('partial clustering prefix')

        def prod(cols):
            out = [()]
            for c in cols:
                out = [o + (norm(v),) for o in out for v in eq[c]]
            return out
        pks = prod(t.pk)
        if full_ck and t.ck:
            return [(p, c) for p in pks for c in prod(t.ck)]
        if given_ck:
            raise Unsupported('range deletion by clustering prefix')
        return [(p, None) for p in pks]

    # ---------------------------------------------------------------- modifications
    def _plan(self, st, params):
        """-> (table key, table, [(pk, ck|None)], list of mutations as (scope, column, fn), row_op)
        scope: 'static' | 'row'; fn(old stored value) -> new stored value.
        row_op: None | 'marker' | 'delete_row' | 'delete_partition'."""
        tk, t = self._table(st)
        muts, row_op = [], None
        if st.kind == 'INSERT':
            if t.is_counter:
                raise InvalidRequest('INSERT statements are not allowed on counter tables, use UPDATE instead')
            vals = {}
            for c, term in zip(st.columns, st.values):
                if c in vals:
                    raise InvalidRequest('The column names contains duplicates')
                if c not in t.order:
                    raise InvalidRequest('Undefined column name %s' % c)
                vals[c] = self._val(term, params)
            for c in t.pk:
                if vals.get(c) is None:
                    raise InvalidRequest('Some partition key parts are missing: %s' % c)
            ck_given = [c for c in t.ck if c in vals]
            regular = [c for c in vals if c in t.kinds and c not in t.static]
            if len(ck_given) == len(t.ck):
                if any(vals[c] is None for c in t.ck):
                    raise InvalidRequest('Invalid null value in condition for column (clustering)')
                keys = [(tuple(norm(vals[c]) for c in t.pk), tuple(norm(vals[c]) for c in t.ck))]
                row_op = 'marker'
            else:
                if ck_given or regular or not any(c in t.static for c in vals):
                    raise InvalidRequest('Some clustering keys are missing: %s' % ', '.join(c for c in t.ck if c not in vals))
                keys = [(tuple(norm(vals[c]) for c in t.pk), None)]
            for c, v in vals.items():
                if c in t.kinds:
                    nv = norm(v)
                    self._typecheck(t, c, nv)
                    muts.append(('static' if c in t.static else 'row', c, (lambda old, nv=nv: nv), ('set',)))
            return tk, t, keys, muts, row_op

        if st.kind == 'UPDATE':
            if not st.assignments:
                raise InvalidRequest('UPDATE without assignments')
            seen = set()
            for a in st.assignments:
                c = a.column
                if c in t.pk or c in t.ck:
                    raise InvalidRequest('PRIMARY KEY part %s found in SET part' % c)
                if c not in t.kinds:
                    raise InvalidRequest('Undefined column name %s' % c)
                tag = (a.kind,) if a.kind != 'elem' else ('elem', repr(norm(self._val(a.key, params))))
                muts.append(('static' if c in t.static else 'row', c, self._assign_fn(t, a, params), tag))
                seen.add(c)
            need_ck = any(m[0] == 'row' for m in muts) or \
                any(c.column not in t.static for c in st.conditions)
            keys = self._keys(t, st.where, params, need_ck, allow_partition_only=True)
            if not need_ck and t.ck and any(r.column in t.ck for r in st.where):
                # "UPDATE t SET s = 3 WHERE k = 0 AND v = 1 ... sounds like you don't really understand what
                # you are doing" (ModificationStatement): rejected for UPDATE and DELETE, accepted for INSERT
                raise InvalidRequest('Invalid restrictions on clustering columns since the UPDATE statement modifies only static columns')
            return tk, t, keys, muts, None

        if st.kind == 'DELETE':
            if st.selections:
                for s in st.selections:
                    c = s.column
                    if c in t.pk or c in t.ck:
                        raise InvalidRequest('Invalid identifier %s for deletion (should not be a PRIMARY KEY part)' % c)
                    if c not in t.kinds:
                        raise InvalidRequest('Undefined column name %s' % c)
                    if s.key is None:
                        muts.append(('static' if c in t.static else 'row', c, (lambda old: None), ('set',)))
                    else:
                        k = self._val(s.key, params)
                        muts.append(('static' if c in t.static else 'row', c, self._delete_elem_fn(t, c, k), ('delelem', repr(norm(k)))))
                need_ck = any(m[0] == 'row' for m in muts)
                if t.ck and not need_ck:
                    keys = self._keys(t, st.where, params, False, allow_partition_only=True)
                    if any(ck is not None for _, ck in keys):
                        raise InvalidRequest('Invalid restrictions on clustering columns since the DELETE statement modifies only static columns')
                else:
                    if t.ck:
                        try:
                            keys = self._keys(t, st.where, params, True, allow_partition_only=False)
                        except InvalidRequest as e:
                            if 'clustering keys are missing' in str(e):
                                raise InvalidRequest('Range deletions are not supported for specific columns')
                            raise
                    else:
                        keys = self._keys(t, st.where, params, False, allow_partition_only=False)
                return tk, t, keys, muts, None
            keys = self._keys(t, st.where, params, False, allow_partition_only=True)
            if t.ck and any(ck is None for _, ck in keys):
                return tk, t, keys, muts, 'delete_partition'
            return tk, t, keys, muts, 'delete_row'
        raise Unsupported(st.kind)

    def _typecheck(self, t, c, nv):
        kind = t.kinds[c]
        if nv is None:
            return
        ok = {'set': frozenset, 'list': tuple, 'map': tuple}.get(kind)
        if kind == 'counter':
            raise InvalidRequest('Cannot set the value of counter column %s (counters can only be incremented/decremented)' % c)
        if ok is not None and not isinstance(nv, ok):
            raise InvalidRequest('Invalid %s value for column %s: %r' % (kind, c, nv))
        if ok is None and isinstance(nv, (frozenset, tuple)):
            raise InvalidRequest('Invalid collection value for non-collection column %s: %r' % (c, nv))

    def _assign_fn(self, t, a, params):
        kind = t.kinds[a.column]
        c = a.column
        if a.kind == 'set':
            nv = norm(self._val(a.term, params))
            self._typecheck(t, c, nv)
            return lambda old: nv
        if a.kind == 'elem':
            key = norm(self._val(a.key, params))
            v = norm(self._val(a.term, params))
            if kind == 'map':
                if key is None:
                    raise InvalidRequest('Invalid null map key')

                def put(old):
                    d = dict(old or ())
                    if v is None:
                        d.pop(key, None)
                    else:
                        d[key] = v
                    return tuple(sorted(d.items(), key=_sort_key)) or None
                return put
            if kind == 'list':
                def setidx(old):
                    l = list(old or ())
                    if not isinstance(key, int) or not 0 <= key < len(l):
                        raise InvalidRequest('List index %r out of bound, list has size %d' % (key, len(l)))
                    if v is None:
                        del l[key]
                    else:
                        l[key] = v
                    return tuple(l) or None
                return setidx
            raise InvalidRequest('Invalid operation %s[..] = .. for non map/list column' % c)
        raw = self._val(a.term, params)
        if kind == 'counter':
            if a.kind not in ('plus', 'minus'):
                raise InvalidRequest('Invalid operation on counter column %s' % c)
            if isinstance(raw, bool) or not isinstance(raw, int):
                raise InvalidRequest('Invalid counter delta %r' % (raw,))
            d = raw if a.kind == 'plus' else -raw
            return lambda old: (old or 0) + d
        if kind == 'scalar':
            raise InvalidRequest('Invalid operation (%s) for non counter, non collection column %s' % (a.kind, c))
        if raw is None:
            raise InvalidRequest('Invalid null value for %s operation on collection column %s' % (a.kind, c))
        v = norm(raw)
        if kind == 'set':
            if v is not None and not isinstance(v, frozenset):
                raise InvalidRequest('Invalid set operand for column %s: %r' % (c, raw))
            v = v or frozenset()
            if a.kind == 'plus':
                return lambda old: (frozenset(old or ()) | v) or None
            if a.kind == 'minus':
                return lambda old: (frozenset(old or ()) - v) or None
            raise InvalidRequest('Invalid operation (%s) on set column %s' % (a.kind, c))
        if kind == 'list':
            if v is not None and not isinstance(v, tuple):
                raise InvalidRequest('Invalid list operand for column %s: %r' % (c, raw))
            v = v or ()
            if a.kind == 'plus':
                return lambda old: (tuple(old or ()) + v) or None
            if a.kind == 'prepend':
                return lambda old: (v + tuple(old or ())) or None
            if a.kind == 'minus':
                return lambda old: tuple(x for x in (old or ()) if x not in v) or None
        if kind == 'map':
            if a.kind == 'plus':
                if v is not None and not (isinstance(v, tuple) and all(isinstance(i, tuple) and len(i) == 2 for i in v)):
                    raise InvalidRequest('Invalid map operand for column %s: %r' % (c, raw))
                add = dict(v or ())

                def putall(old):
                    d = dict(old or ())
                    d.update(add)
                    return tuple(sorted(d.items(), key=_sort_key)) or None
                return putall
            if a.kind == 'minus':
                if v is not None and not isinstance(v, frozenset):
                    raise InvalidRequest('Invalid operand for map key removal on %s (a set of keys is required): %r' % (c, raw))
                ks = v or frozenset()
                return lambda old: tuple((k, x) for k, x in (old or ()) if k not in ks) or None
        raise InvalidRequest('Invalid operation (%s) on %s column %s' % (a.kind, kind, c))

    def _delete_elem_fn(self, t, c, key):
        kind = t.kinds[c]
        key = norm(key)
        if kind == 'map':
            return lambda old: tuple((k, x) for k, x in (old or ()) if k != key) or None
        if kind == 'list':
            def f(old):
                l = list(old or ())
                if not isinstance(key, int) or not 0 <= key < len(l):
                    raise InvalidRequest('List index %r out of bound, list has size %d' % (key, len(l)))
                del l[key]
                return tuple(l) or None
            return f
        raise InvalidRequest('Invalid deletion operation for non list/map column %s' % c)

    def _row_exists(self, tk, t, pk, ck):
        part = self.data[tk].get(pk)
        if part is None:
            return False
        if ck is None or not t.ck:
            if not t.ck:
                return () in part['rows']
            return bool(part['static']) or bool(part['rows'])
        return ck in part['rows']

    def _current(self, tk, t, pk, ck, col):
        part = self.data[tk].get(pk)
        if part is None:
            return None
        if col in t.static:
            return part['static'].get(col)
        r = part['rows'].get(ck if t.ck else ())
        return r['cells'].get(col) if r else None

    def _check_conditions(self, st, params, tk, t, keys):
        """-> Applied or None when the statement is unconditional."""
        if not (st.if_exists or st.if_not_exists or st.conditions):
            return None
        if len(keys) != 1:
            raise Unsupported('conditional statement on several rows')
        pk, ck = keys[0]
        exists = self._row_exists(tk, t, pk, ck)
        if st.if_not_exists:
            if exists:
                row = self.read_row(tk, pk, ck) if (ck is not None or not t.ck) else {}
                return Applied(False, row or {})
            return Applied(True)
        if st.if_exists:
            return Applied(exists)
        existing, ok = {}, True
        for c in st.conditions:
            if c.lhs[0] != 'col' or c.column not in t.kinds:
                raise InvalidRequest('bad condition column %r' % (c.lhs,))
            if c.column not in t.static and t.ck and ck is None:
                raise InvalidRequest('condition on a regular column needs the full primary key')
            cur = self._current(tk, t, pk, ck, c.column)
            want = norm(self._val(c.rhs, params))
            existing[c.column] = denorm(t.kinds[c.column], cur)
            if c.op == '=':
                ok = ok and cur == want
            elif c.op == '!=':
                ok = ok and cur != want
            elif c.op in ('<', '<=', '>', '>='):
                if cur is None or want is None:
                    ok = False
                else:
                    ok = ok and {'<': cur < want, '<=': cur <= want, '>': cur > want, '>=': cur >= want}[c.op]
            elif c.op == 'IN':
                ok = ok and cur in [norm(x) for x in self._val(c.rhs, params)]
            else:
                raise Unsupported('condition operator %s' % c.op)
        if not exists:
            existing = {}
        return Applied(ok, existing)

    def _apply(self, stmts, params, batch=False):
        plans = [(st,) + self._plan(st, params) for st in stmts]
        cond_results = []
        for st, tk, t, keys, muts, row_op in plans:
            r = self._check_conditions(st, params, tk, t, keys)
            if r is not None:
                cond_results.append(r)
        if cond_results:
            if not all(r.applied for r in cond_results):
                bad = [r for r in cond_results if not r.applied][0]
                return Applied(False, bad.existing)
        # compute all new values against the pre-state, then write (batch = simultaneous)
        # S5b: several operations on one collection column in one statement are legal unless one
        # of them is a plain assignment ("Multiple incompatible setting of column"); they act on
        # disjoint cells, deletions (tombstones) win over additions of the same element.
        writes = {}        # (tk, pk, scope-key, column) -> new value
        rowops = []
        grouped = {}       # cell -> [(fn, tag, statement index)]
        info = {}
        for si, (st, tk, t, keys, muts, row_op) in enumerate(plans):
            for pk, ck in keys:
                if row_op:
                    rowops.append((tk, t, pk, ck, row_op))
                for scope, c, fn, tag in muts:
                    where = (tk, pk, None if scope == 'static' else (ck if t.ck else ()), c)
                    if scope == 'row' and where[2] is None:
                        raise InvalidRequest('regular column %s written without clustering key' % c)
                    grouped.setdefault(where, []).append((fn, tag, si))
                    info[where] = (tk, t, pk, ck)
        for where, ops in grouped.items():
            c = where[3]
            tk, t, pk, ck = info[where]
            if len(ops) > 1:
                tags = [tag for _, tag, _ in ops]
                same_stmt = len(set(si for _, _, si in ops)) == 1
                if any(tag[0] == 'set' for tag in tags) or t.kinds[c] in ('counter', 'scalar'):
                    if same_stmt:
                        raise InvalidRequest('Multiple incompatible setting of column %s' % c)
                    raise Unsupported('two statements of one batch write the same cell %r (S8)' % (where,))
                dup = set(tag for tag in tags if tags.count(tag) > 1)
                # twice the same operation: appends get increasing time-uuids (statement order), set
                # additions/removals commute; anything else (same map key / list index twice, two
                # prepends) depends on tie rules that are not modelled
                if dup and not all((t.kinds[c] == 'list' and tag == ('plus',)) or
                                   (t.kinds[c] == 'set' and tag[0] in ('plus', 'minus')) for tag in dup):
                    raise Unsupported('the same operation/element of column %s twice at one timestamp' % c)
                if t.kinds[c] == 'list' and any(tag[0] in ('minus', 'delelem', 'elem') for tag in tags):
                    raise Unsupported('list removal/index operation combined with another operation on %s' % c)
                ops = [o for o in ops if o[1][0] not in ('minus', 'delelem')] + \
                      [o for o in ops if o[1][0] in ('minus', 'delelem')]
            cur = self._current(tk, t, pk, ck, c)
            for fn, _tag, _si in ops:
                cur = fn(cur)
            writes[where] = cur
        if batch:
            for tk, t, pk, ck, op in rowops:
                if op != 'marker':
                    for (wtk, wpk, wscope, _c) in writes:
                        if wtk == tk and wpk == pk and (op == 'delete_partition' or wscope == (ck if t.ck else ())):
                            raise Unsupported('a batch deletes a row and writes to it (S8)')
        for tk, t, pk, ck, op in rowops:
            parts = self.data[tk]
            if op == 'delete_partition':
                parts.pop(pk, None)
            elif op == 'delete_row':
                part = parts.get(pk)
                if part is not None:
                    part['rows'].pop(ck if t.ck else (), None)
            elif op == 'marker':
                part = parts.setdefault(pk, {'static': {}, 'rows': {}})
                part['rows'].setdefault(ck if t.ck else (), {'marker': False, 'cells': {}})['marker'] = True
        for (tk, pk, scope, c), nv in writes.items():
            parts = self.data[tk]
            if nv is None:
                part = parts.get(pk)
                if part is None:
                    continue
                if scope is None:
                    part['static'].pop(c, None)
                else:
                    r = part['rows'].get(scope)
                    if r is not None:
                        r['cells'].pop(c, None)
            else:
                part = parts.setdefault(pk, {'static': {}, 'rows': {}})
                if scope is None:
                    part['static'][c] = nv
                else:
                    part['rows'].setdefault(scope, {'marker': False, 'cells': {}})['cells'][c] = nv
        # purge dead rows / partitions (S1)
        for tk in set(p[1] for p in plans):
            parts = self.data[tk]
            for pk in list(parts):
                part = parts[pk]
                for ck in list(part['rows']):
                    r = part['rows'][ck]
                    if not r['marker'] and not r['cells']:
                        del part['rows'][ck]
                if not part['rows'] and not part['static']:
                    del parts[pk]
        if cond_results:
            return Applied(True)
        return []

    def _batch(self, st, params):
        if not st.statements:
            return []
        counter = [self._table(s)[1].is_counter for s in st.statements]
        if any(counter) and not all(counter):
            raise InvalidRequest('Cannot include counter and non-counter statements in one batch')
        if any(counter) and st.batch_type != 'COUNTER':
            raise InvalidRequest('Cannot include a counter statement in a logged/unlogged batch')
        if not any(counter) and st.batch_type == 'COUNTER':
            raise InvalidRequest('Cannot include non-counter statement in a counter batch')
        return self._apply(st.statements, params, batch=True)

    # ---------------------------------------------------------------- reads
    def _partition_rows(self, t, pk, part):
        statics = dict((c, denorm(t.kinds[c], part['static'].get(c))) for c in t.static)
        rows = []
        for ck in sorted(part['rows'], key=lambda k: tuple(_sk(x) for x in k)):
            r = part['rows'][ck]
            row = dict(zip(t.pk, pk))
            row.update(zip(t.ck, ck))
            for c, kind in t.kinds.items():
                if c in t.static:
                    row[c] = statics[c]
                else:
                    row[c] = denorm(kind, r['cells'].get(c))
            rows.append(row)
        if not rows and part['static']:
            row = dict(zip(t.pk, pk))
            for c in t.ck:
                row[c] = None
            for c in t.kinds:
                row[c] = statics[c] if c in t.static else None
            rows.append(row)
        return rows

    def _select(self, st, params):
        tk, t = self._table(st)
        rows = []
        for pk, part in self.data[tk].items():
            rows.extend(self._partition_rows(t, pk, part))
        for r in st.where:
            if r.lhs[0] != 'col':
                raise Unsupported('token() restriction')
            c = r.column
            if c not in t.order:
                raise InvalidRequest('Undefined column name %s' % c)
            if r.op == 'IS NOT NULL':
                rows = [x for x in rows if x[c] is not None]
                continue
            v = self._val(r.rhs, params)
            kind = t.kinds.get(c, 'scalar')
            if r.op == '=':
                rows = [x for x in rows if x[c] is not None and norm(x[c]) == norm(v)]
            elif r.op == 'IN':
                vs = [norm(i) for i in v]
                rows = [x for x in rows if x[c] is not None and norm(x[c]) in vs]
            elif r.op == '!=':
                rows = [x for x in rows if x[c] is not None and norm(x[c]) != norm(v)]
            elif r.op in ('<', '<=', '>', '>='):
                f = {'<': lambda a: a < v, '<=': lambda a: a <= v, '>': lambda a: a > v, '>=': lambda a: a >= v}[r.op]
                rows = [x for x in rows if x[c] is not None and f(x[c])]
            elif r.op == 'CONTAINS':
                if kind == 'map':
                    rows = [x for x in rows if x[c] and v in x[c].values()]
                else:
                    rows = [x for x in rows if x[c] and v in x[c]]
            elif r.op == 'CONTAINS KEY':
                rows = [x for x in rows if x[c] and v in x[c]]
            else:
                raise Unsupported('operator %s' % r.op)
        for c, d in reversed(st.order_by):
            if c not in t.ck:
                raise InvalidRequest('ORDER BY is only supported on clustering columns')
            rows.sort(key=lambda x: _sk(x[c]), reverse=(d == 'DESC'))
        if st.distinct:
            cols = st.columns or t.pk
            for c in cols:
                if c not in t.pk and c not in t.static:
                    raise InvalidRequest('SELECT DISTINCT queries must only request partition key columns and/or static columns')
            seen, out = set(), []
            for x in rows:
                k = tuple(norm(x[c]) for c in t.pk)
                if k not in seen:
                    seen.add(k)
                    out.append(x)
            rows = out
        if st.count:
            n = len(rows)
            if st.limit:
                n = min(n, st.limit) if False else n   # LIMIT applies to the (single) result row, not to the counted rows
            return [{'count': n}]
        if st.limit:
            rows = rows[:st.limit]
        if st.columns is not None:
            for c in st.columns:
                if c not in t.order:
                    raise InvalidRequest('Undefined column name %s' % c)
            rows = [dict((c, x[c]) for c in st.columns) for x in rows]
        else:
            rows = [dict((c, x[c]) for c in t.order) for x in rows]
        return rows


# ------------------------------------------------------------------------------------ key / value encoding
# Cassandra's binary form of scalar CQL values (native protocol "[value]" bodies, which are also
# what the partitioner hashes) written from the protocol specification, section "Data types".
import datetime as _dt
import decimal as _decimal
import ipaddress as _ip
import struct as _struct
import uuid as _uuid

_EPOCH_DATE = _dt.date(1970, 1, 1)
_EPOCH_NAIVE = _dt.datetime(1970, 1, 1)
_EPOCH_UTC = _dt.datetime(1970, 1, 1, tzinfo=_dt.timezone.utc)


def varint_bytes(n):
    """Two's complement, big endian, minimal length (java BigInteger.toByteArray)."""
    length = 1
    while not -(1 << (8 * length - 1)) <= n < (1 << (8 * length - 1)):
        length += 1
    return (n & ((1 << (8 * length)) - 1)).to_bytes(length, 'big')


def millis_of(v):
    """Exact millisecond instant of a datetime (naive = UTC) or date, floor of sub-millisecond."""
    if isinstance(v, _dt.datetime):
        td = (v - _EPOCH_UTC) if v.tzinfo is not None and v.utcoffset() is not None else (v - _EPOCH_NAIVE)
    elif isinstance(v, _dt.date):
        td = _dt.datetime(v.year, v.month, v.day) - _EPOCH_NAIVE
    else:
        raise TypeError('not a date/datetime: %r' % (v,))
    micros = (td.days * 86400 + td.seconds) * 1000000 + td.microseconds
    return micros // 1000


def encode_value(typ, v):
    """Binary form of python value `v` as CQL type `typ` (lower-case CQL name)."""
    if typ in ('text', 'varchar'):
        return v.encode('utf-8')
    if typ == 'ascii':
        return v.encode('ascii')
    if typ == 'blob':
        return bytes(v)
    if typ == 'boolean':
        return b'\x01' if v else b'\x00'
    if typ == 'tinyint':
        return _struct.pack('>b', v)
    if typ == 'smallint':
        return _struct.pack('>h', v)
    if typ == 'int':
        return _struct.pack('>i', v)
    if typ in ('bigint', 'counter'):
        return _struct.pack('>q', v)
    if typ == 'varint':
        return varint_bytes(v)
    if typ == 'float':
        return _struct.pack('>f', v)
    if typ == 'double':
        return _struct.pack('>d', v)
    if typ == 'decimal':
        sign, digits, exp = _decimal.Decimal(v).as_tuple()
        unscaled = int(''.join(map(str, digits)) or '0')
        if sign:
            unscaled = -unscaled
        return _struct.pack('>i', -exp) + varint_bytes(unscaled)
    if typ in ('uuid', 'timeuuid'):
        return (v if isinstance(v, _uuid.UUID) else _uuid.UUID(v)).bytes
    if typ == 'inet':
        return _ip.ip_address(v).packed
    if typ == 'timestamp':
        return _struct.pack('>q', millis_of(v))
    if typ == 'date':
        days = v if isinstance(v, int) else (v - _EPOCH_DATE).days
        return _struct.pack('>I', days + (1 << 31))
    if typ == 'time':
        if isinstance(v, _dt.time):
            v = ((v.hour * 60 + v.minute) * 60 + v.second) * 1000000000 + v.microsecond * 1000
        return _struct.pack('>q', v)
    raise Unsupported('type %s' % typ)


def routing_key(types, values):
    """Partition key as Cassandra hashes it: the single component's bytes, or for a composite
    key each component as <2-byte big-endian length><bytes><0x00>."""
    parts = [encode_value(t, v) for t, v in zip(types, values)]
    if len(parts) == 1:
        return parts[0]
    return b''.join(_struct.pack('>H', len(p)) + p + b'\x00' for p in parts)


# ------------------------------------------------------------------------------------ selftest
def selftest():
    """Fixed scenarios with outcomes documented for Cassandra (CQL reference: upserts, statics,
    collections, counters, LWT).  Raises AssertionError on disagreement."""
    t = Table('ks', 't', ['p'], ['c'], {'st': 'scalar', 'v': 'scalar', 's': 'set', 'l': 'list', 'm': 'map'}, static=['st'])
    cn = Table('ks', 'cn', ['p'], [], {'n': 'counter'})
    db = Database([t, cn])
    T = ('ks', 't')
    ex = db.execute
    # parse: placeholders per clause, batch without separators
    st = parse('UPDATE ks.t USING TTL 5 AND TIMESTAMP 7 SET "v" = %(2)s, "l" = %(3)s + "l", "m"[%(4)s] = %(5)s '
               'WHERE "p" = %(0)s AND "c" IN %(1)s IF "v" = %(6)s')
    assert st.using == {'ttl': 5, 'timestamp': 7}
    assert [(k, n.placeholders()) for k, n in st.clauses()] == [
        ('set', ['2']), ('set', ['3']), ('set', ['4', '5']), ('where', ['0']), ('where', ['1']), ('if', ['6'])]
    assert [a.kind for a in st.assignments] == ['set', 'prepend', 'elem']
    b = parse('BEGIN  BATCH\n  INSERT INTO ks.t ("p", "c") VALUES (%(0)s, %(1)s)\n  DELETE "v", "m"[%(4)s] FROM ks.t WHERE "p" = %(2)s AND "c" = %(3)s\nAPPLY BATCH;')
    assert [s.kind for s in b.statements] == ['INSERT', 'DELETE'] and b.placeholders() == ['0', '1', '4', '2', '3']
    s = parse('SELECT "a", "b" FROM ks.t WHERE token("p") > token(%(0)s) AND "c" CONTAINS %(1)s ORDER BY "c" DESC LIMIT 10 ALLOW FILTERING')
    assert s.where[0].lhs == ('token', ['p']) and s.where[0].placeholders() == ['0'] and s.limit == 10 and s.allow_filtering
    assert s.order_by == [('c', 'DESC')]
    # S1: UPDATE-only row disappears with its last cell; INSERTed row stays
    ex('UPDATE ks.t SET "v" = %(0)s WHERE "p" = %(1)s AND "c" = %(2)s', {'0': 5, '1': 1, '2': 1})
    assert db.read_row(T, (1,), (1,))['v'] == 5
    ex('UPDATE ks.t SET "v" = %(0)s WHERE "p" = %(1)s AND "c" = %(2)s', {'0': None, '1': 1, '2': 1})
    assert db.read_row(T, (1,), (1,)) is None
    ex('INSERT INTO ks.t ("p", "c", "v") VALUES (%(0)s, %(1)s, %(2)s)', {'0': 1, '1': 1, '2': 5})
    ex('DELETE "v" FROM ks.t WHERE "p" = %(0)s AND "c" = %(1)s', {'0': 1, '1': 1})
    assert db.read_row(T, (1,), (1,)) == {'p': 1, 'c': 1, 'st': None, 'v': None, 's': None, 'l': None, 'm': None}
    # S2/S5 collections
    ex('UPDATE ks.t SET "s" = "s" + %(0)s, "l" = "l" + %(1)s, "m"[%(2)s] = %(3)s WHERE "p" = %(4)s AND "c" = %(5)s',
       {'0': {1, 2}, '1': [1, 2], '2': 1, '3': 10, '4': 1, '5': 1})
    ex('UPDATE ks.t SET "l" = %(0)s + "l", "s" = "s" - %(1)s WHERE "p" = %(2)s AND "c" = %(3)s',
       {'0': [8, 9], '1': {2, 7}, '2': 1, '3': 1})
    r = db.read_row(T, (1,), (1,))
    assert r['l'] == [8, 9, 1, 2] and r['s'] == {1} and r['m'] == {1: 10}, r
    ex('UPDATE ks.t SET "s" = %(0)s, "m" = "m" - %(1)s WHERE "p" = %(2)s AND "c" = %(3)s', {'0': set(), '1': {1}, '2': 1, '3': 1})
    r = db.read_row(T, (1,), (1,))
    assert r['s'] is None and r['m'] is None
    ex('DELETE "l"[%(0)s] FROM ks.t WHERE "p" = %(1)s AND "c" = %(2)s', {'0': 0, '1': 1, '2': 1})
    assert db.read_row(T, (1,), (1,))['l'] == [9, 1, 2]
    # S4 statics
    ex('UPDATE ks.t SET "st" = %(0)s WHERE "p" = %(1)s', {'0': 'x', '1': 2})
    assert ex('SELECT * FROM ks.t WHERE "p" = %(0)s', {'0': 2}) == [
        {'p': 2, 'c': None, 'st': 'x', 'v': None, 's': None, 'l': None, 'm': None}]
    ex('INSERT INTO ks.t ("p", "c") VALUES (%(0)s, %(1)s)', {'0': 2, '1': 5})
    ex('INSERT INTO ks.t ("p", "c") VALUES (%(0)s, %(1)s)', {'0': 2, '1': 3})
    rows = ex('SELECT * FROM ks.t WHERE "p" = %(0)s', {'0': 2})
    assert [(x['c'], x['st']) for x in rows] == [(3, 'x'), (5, 'x')]
    ex('DELETE FROM ks.t WHERE "p" = %(0)s AND "c" = %(1)s', {'0': 2, '1': 3})
    assert [(x['c'], x['st']) for x in ex('SELECT * FROM ks.t WHERE "p" = %(0)s', {'0': 2})] == [(5, 'x')]
    try:
        ex('DELETE "v" FROM ks.t WHERE "p" = %(0)s', {'0': 2})
        raise AssertionError('range deletion of a column accepted')
    except InvalidRequest:
        pass
    try:
        ex('DELETE "st" FROM ks.t WHERE "p" = %(0)s AND "c" = %(1)s', {'0': 2, '1': 5})
        raise AssertionError('static deletion with clustering accepted')
    except InvalidRequest:
        pass
    try:
        ex('UPDATE ks.t SET "st" = %(0)s WHERE "p" = %(1)s AND "c" = %(2)s', {'0': 'y', '1': 2, '2': 5})
        raise AssertionError('static-only update with clustering accepted')
    except InvalidRequest:
        pass
    ex('UPDATE ks.t SET "st" = %(0)s, "v" = %(3)s WHERE "p" = %(1)s AND "c" = %(2)s', {'0': 'y', '1': 2, '2': 5, '3': 1})
    assert db.read_static(T, (2,)) == {'st': 'y'}
    ex('DELETE FROM ks.t WHERE "p" = %(0)s', {'0': 2})
    assert ex('SELECT * FROM ks.t WHERE "p" = %(0)s', {'0': 2}) == []
    # S6 counters
    ex('UPDATE ks.cn SET "n" = "n" + %(0)s WHERE "p" = %(1)s', {'0': 3, '1': 1})
    ex('UPDATE ks.cn SET "n" = "n" - %(0)s WHERE "p" = %(1)s', {'0': 5, '1': 1})
    assert db.read_row(('ks', 'cn'), (1,)) == {'p': 1, 'n': -2}
    try:
        ex('INSERT INTO ks.cn ("p", "n") VALUES (%(0)s, %(1)s)', {'0': 1, '1': 1})
        raise AssertionError('INSERT into a counter table accepted')
    except InvalidRequest:
        pass
    # S7 LWT
    r = ex('INSERT INTO ks.t ("p", "c", "v") VALUES (%(0)s, %(1)s, %(2)s) IF NOT EXISTS', {'0': 1, '1': 1, '2': 9})
    assert not r.applied and r.rows()[0]['[applied]'] is False and r.rows()[0]['p'] == 1
    r = ex('INSERT INTO ks.t ("p", "c", "v") VALUES (%(0)s, %(1)s, %(2)s) IF NOT EXISTS', {'0': 1, '1': 2, '2': 9})
    assert r.applied and db.read_row(T, (1,), (2,))['v'] == 9
    r = ex('UPDATE ks.t SET "v" = %(0)s WHERE "p" = %(1)s AND "c" = %(2)s IF "v" = %(3)s', {'0': 1, '1': 1, '2': 2, '3': 8})
    assert not r.applied and r.rows() == [{'[applied]': False, 'v': 9}]
    r = ex('UPDATE ks.t SET "v" = %(0)s WHERE "p" = %(1)s AND "c" = %(2)s IF "v" = %(3)s', {'0': 1, '1': 1, '2': 2, '3': 9})
    assert r.applied and db.read_row(T, (1,), (2,))['v'] == 1
    r = ex('DELETE FROM ks.t WHERE "p" = %(0)s AND "c" = %(1)s IF EXISTS', {'0': 1, '1': 7})
    assert not r.applied
    # S8 batch atomic / conflict
    r = ex('BEGIN  BATCH\n  UPDATE ks.t SET "v" = %(0)s WHERE "p" = %(1)s AND "c" = %(2)s IF "v" = %(3)s\n'
           '  INSERT INTO ks.t ("p", "c", "v") VALUES (%(4)s, %(5)s, %(6)s)\nAPPLY BATCH;',
           {'0': 2, '1': 1, '2': 2, '3': 77, '4': 1, '5': 3, '6': 3})
    assert not r.applied and db.read_row(T, (1,), (3,)) is None
    try:
        ex('BEGIN  BATCH\n  UPDATE ks.t SET "v" = %(0)s WHERE "p" = %(1)s AND "c" = %(2)s\n'
           '  UPDATE ks.t SET "v" = %(3)s WHERE "p" = %(4)s AND "c" = %(5)s\nAPPLY BATCH;',
           {'0': 2, '1': 1, '2': 2, '3': 3, '4': 1, '5': 2})
        raise AssertionError('same-cell batch conflict not reported')
    except Unsupported:
        pass
    # value / key encoding vectors (protocol spec examples and vectors also present in
    # /repo/tests/unit/test_marshalling.py and test_types.py)
    assert encode_value('int', 1) == b'\x00\x00\x00\x01' and encode_value('int', -1) == b'\xff\xff\xff\xff'
    assert encode_value('bigint', 1 << 40) == b'\x00\x00\x01\x00\x00\x00\x00\x00'
    assert varint_bytes(0) == b'\x00' and varint_bytes(127) == b'\x7f' and varint_bytes(128) == b'\x00\x80'
    assert varint_bytes(-1) == b'\xff' and varint_bytes(-128) == b'\x80' and varint_bytes(-129) == b'\xff\x7f'
    assert encode_value('varint', 9223372036854775808) == b'\x00\x80\x00\x00\x00\x00\x00\x00\x00'
    assert encode_value('decimal', _decimal.Decimal('1.23')) == b'\x00\x00\x00\x02\x7b'
    assert encode_value('timestamp', _dt.datetime(2011, 11, 7, 18, 55, 49, 881000)) == b'\x00\x00\x013\x7fb\xeey'
    assert encode_value('timestamp', _dt.datetime(2015, 11, 2)) == b'\x00\x00\x01P\xc5~L\x00'
    assert encode_value('decimal', _decimal.Decimal('1243878957943.1234124191998')) == b'\x00\x00\x00\r\nJ\x04"^\x91\x04\x8a\xb1\x18\xfe'
    assert encode_value('decimal', _decimal.Decimal('-112233.441191')) == b'\x00\x00\x00\x06\xe5\xde]\x98Y'
    assert encode_value('decimal', _decimal.Decimal('-0.00000000000000064206')) == b'\x00\x00\x00\x14\xff\x052'
    assert encode_value('decimal', _decimal.Decimal('64206e100')) == b'\xff\xff\xff\x9c\x00\xfa\xce'
    assert encode_value('timestamp', _dt.datetime(1969, 12, 31, 23, 59, 59, 999000)) == b'\xff' * 8
    assert encode_value('timestamp', _dt.datetime(1970, 1, 1, 1, tzinfo=_dt.timezone(_dt.timedelta(hours=1)))) == b'\x00' * 8
    assert encode_value('date', _dt.date(1970, 1, 1)) == b'\x80\x00\x00\x00' and encode_value('date', _dt.date(1969, 12, 31)) == b'\x7f\xff\xff\xff'
    assert encode_value('time', _dt.time(0, 0, 1, 1)) == _struct.pack('>q', 1000001000)
    assert encode_value('boolean', True) == b'\x01' and encode_value('text', 'h\xe9') == b'h\xc3\xa9'
    assert encode_value('inet', '127.0.0.1') == b'\x7f\x00\x00\x01' and len(encode_value('inet', '::1')) == 16
    assert encode_value('double', 1.0) == b'\x3f\xf0' + b'\x00' * 6 and encode_value('float', -2.0) == b'\xc0\x00\x00\x00'
    assert routing_key(['int'], [1]) == b'\x00\x00\x00\x01'
    assert routing_key(['int', 'text'], [1, 'ab']) == b'\x00\x04\x00\x00\x00\x01\x00' + b'\x00\x02ab\x00'
    return True


if __name__ == '__main__':
    selftest()
    print('minicql selftest ok')
