"""Reference partitioners, written from Cassandra's sources (org.apache.cassandra.utils.MurmurHash,
dht.Murmur3Partitioner, dht.RandomPartitioner, dht.ByteOrderedPartitioner, db.marshal.CompositeType).
Only the python stdlib is used; nothing is shared with the driver.

Java semantics reproduced here
* `long` arithmetic wraps modulo 2^64: every intermediate is reduced with `& M64`; the final value
  is re-interpreted as a signed 64-bit number.
* `MurmurHash.getBlock` assembles a body block from bytes masked with `& 0xff` (little endian); the
  resulting `long` is signed, which modulo 2^64 is the unsigned little-endian value.
* the tail `switch` does `((long) key.get(i)) << s` WITHOUT masking: a byte >= 0x80 is sign
  extended to 64 bits before the shift (the well known deviation from canonical MurmurHash3).
* `fmix` uses the logical shift `>>>`.
* Murmur3Partitioner: seed 0, token = first half of the 128-bit result, Long.MIN_VALUE -> MAX_VALUE.
* RandomPartitioner: `new BigInteger(md5(key)).abs()` (two's-complement big-endian digest).
* ByteOrderedPartitioner: the token is the key itself.
* Both hash partitioners return their MINIMUM sentinel for the empty key (`key.remaining() == 0`);
  an empty partition key is rejected by Cassandra ("Key may not be empty"), so no row has it.
"""
import hashlib
import struct

M64 = (1 << 64) - 1
LONG_MIN = -(1 << 63)
LONG_MAX = (1 << 63) - 1

C1 = 0x87c37b91114253d5
C2 = 0x4cf5ad432745937f


def _signed(x):
    x &= M64
    return x - (1 << 64) if x >> 63 else x


def _rotl(x, r):
    return ((x << r) | (x >> (64 - r))) & M64


def _fmix(k):
    k ^= k >> 33
    k = (k * 0xff51afd7ed558ccd) & M64
    k ^= k >> 33
    k = (k * 0xc4ceb9fe1a85ec53) & M64
    k ^= k >> 33
    return k


def _sext_byte(b):
    """(long) of a java byte: 0x80..0xff are negative, i.e. 0xffffffffffffff80.. modulo 2^64."""
    return (b - 256) & M64 if b >= 0x80 else b


def murmur3_x64_128(data, seed=0):
    """Cassandra's MurmurHash.hash3_x64_128 -> (h1, h2) as signed 64-bit integers."""
    data = bytes(data)
    length = len(data)
    nblocks = length >> 4
    h1 = h2 = seed & M64
    for i in range(nblocks):
        k1 = int.from_bytes(data[16 * i:16 * i + 8], 'little')
        k2 = int.from_bytes(data[16 * i + 8:16 * i + 16], 'little')
        k1 = (k1 * C1) & M64
        k1 = _rotl(k1, 31)
        k1 = (k1 * C2) & M64
        h1 ^= k1
        h1 = _rotl(h1, 27)
        h1 = (h1 + h2) & M64
        h1 = (h1 * 5 + 0x52dce729) & M64
        k2 = (k2 * C2) & M64
        k2 = _rotl(k2, 33)
        k2 = (k2 * C1) & M64
        h2 ^= k2
        h2 = _rotl(h2, 31)
        h2 = (h2 + h1) & M64
        h2 = (h2 * 5 + 0x38495ab5) & M64
    off = nblocks * 16
    rem = length & 15
    k1 = k2 = 0
    if rem > 8:
        for j in range(rem - 1, 7, -1):          # case 15 .. case 9 (fall through)
            k2 ^= (_sext_byte(data[off + j]) << ((j - 8) * 8)) & M64
        k2 = (k2 * C2) & M64
        k2 = _rotl(k2, 33)
        k2 = (k2 * C1) & M64
        h2 ^= k2
    if rem > 0:
        for j in range(min(rem, 8) - 1, -1, -1):  # case 8 .. case 1
            k1 ^= (_sext_byte(data[off + j]) << (j * 8)) & M64
        k1 = (k1 * C1) & M64
        k1 = _rotl(k1, 31)
        k1 = (k1 * C2) & M64
        h1 ^= k1
    h1 ^= length
    h2 ^= length
    h1 = (h1 + h2) & M64
    h2 = (h2 + h1) & M64
    h1 = _fmix(h1)
    h2 = _fmix(h2)
    h1 = (h1 + h2) & M64
    h2 = (h2 + h1) & M64
    return _signed(h1), _signed(h2)


def _inv_mul(m):
    return pow(m, -1, 1 << 64)


def _unxorshift33(k):
    # k ^= k >> 33 is an involution-like map on 64 bits: applying it twice restores the value
    return k ^ (k >> 33)


def _unfmix(k):
    k = _unxorshift33(k)
    k = (k * _inv_mul(0xc4ceb9fe1a85ec53)) & M64
    k = _unxorshift33(k)
    k = (k * _inv_mul(0xff51afd7ed558ccd)) & M64
    k = _unxorshift33(k)
    return k


def _rotr(x, r):
    return ((x >> r) | (x << (64 - r))) & M64


def murmur3_preimage16(target_h1, free):
    """A 16-byte key whose hash3_x64_128(...)[0] is `target_h1` (signed or unsigned 64-bit); `free` (any
    64-bit value) picks one of the 2^64 solutions.  The hash of a 16-byte key is one body round followed by
    the finalizer, every step of which is a bijection on 64-bit words, so it can be run backwards."""
    t = target_h1 & M64
    b = free & M64                       # fmix(h2) just before the last h1 += h2
    a = (t - b) & M64                    # fmix(h1)
    h1p, h2p = _unfmix(a), _unfmix(b)    # after 'h1 += h2; h2 += h1'
    h2 = (h2p - h1p) & M64
    h1 = (h1p - h2) & M64
    h1 ^= 16
    h2 ^= 16
    # undo the body round that started from h1 = h2 = 0
    x2 = ((h2 - 0x38495ab5) * _inv_mul(5)) & M64        # rotl(k2', 31) + h1
    k2m = _rotr((x2 - h1) & M64, 31)                    # h2 ^= k2' with h2 = 0
    x1 = ((h1 - 0x52dce729) * _inv_mul(5)) & M64        # rotl(k1', 27) + 0
    k1m = _rotr(x1, 27)
    k1 = (_rotr((k1m * _inv_mul(C2)) & M64, 31) * _inv_mul(C1)) & M64
    k2 = (_rotr((k2m * _inv_mul(C1)) & M64, 33) * _inv_mul(C2)) & M64
    key = k1.to_bytes(8, 'little') + k2.to_bytes(8, 'little')
    assert murmur3_x64_128(key)[0] == _signed(t), 'preimage construction is wrong'
    return key


def murmur3_raw(key):
    """hash[0] of Murmur3Partitioner.getHash (before normalisation)."""
    return murmur3_x64_128(key, 0)[0]


def murmur3_normalize(v):
    """Murmur3Partitioner.normalize"""
    return LONG_MAX if v == LONG_MIN else v


def murmur3_token(key):
    """Token of a (non-empty) partition key under Murmur3Partitioner."""
    return murmur3_normalize(murmur3_raw(key))


def md5_token(key):
    """RandomPartitioner: FBUtilities.hashToBigInteger = new BigInteger(md5(key)).abs()."""
    return abs(int.from_bytes(hashlib.md5(bytes(key)).digest(), 'big', signed=True))


def md5_signed(key):
    """The md5 digest as Java's `new BigInteger(byte[])` reads it: big-endian two's complement, so
    negative when the top bit of the digest is set (RandomPartitioner's token is its absolute value)."""
    return int.from_bytes(hashlib.md5(bytes(key)).digest(), 'big', signed=True)


def hash_half(tclass, key):
    """Which half of the partitioner's raw hash range a key falls in (1 = the half a signed reading
    calls negative): md5 -> top bit of the digest, murmur3 -> sign of hash[0], bytes -> first byte
    >= 0x80 (ByteOrderedPartitioner compares bytes unsigned)."""
    key = bytes(key)
    if tclass == 'md5':
        return 1 if md5_signed(key) < 0 else 0
    if tclass == 'murmur3':
        return 1 if murmur3_raw(key) < 0 else 0
    if tclass == 'bytes':
        return 1 if key[:1] >= b'\x80' else 0
    raise ValueError('unknown partitioner %r' % (tclass,))


def bytes_token(key):
    """ByteOrderedPartitioner: the key bytes are the token."""
    return bytes(key)


def composite_key(components):
    """Partition key as Cassandra hashes it: a single component is used raw; several components
    use CompositeType's layout: for each component <2-byte big-endian length><bytes><0x00>."""
    components = [bytes(c) for c in components]
    if len(components) == 1:
        return components[0]
    out = bytearray()
    for c in components:
        if len(c) > 0xffff:
            raise ValueError('component too long for CompositeType')
        out += struct.pack('>H', len(c)) + c + b'\x00'
    return bytes(out)


def selftest():
    """Fixed vectors (also present in /repo/tests/unit/test_metadata.py, which took them from
    Cassandra) and structural sanity of the reference."""
    v = [
        (b'123', -7468325962851647638),
        (b'\x00\xff\x10\xfa\x99' * 10, 5837342703291459765),
        (b'\xfe' * 8, -8927430733708461935),
        (b'\x10' * 8, 1446172840243228796),
        (b'9223372036854775807', 7162290910810015547),
    ]
    for k, want in v:
        got = murmur3_raw(k)
        if got != want:
            raise AssertionError('murmur3 reference disagrees with vector %r: %d != %d' % (k, got, want))
    if murmur3_x64_128(b'', 0) != (0, 0):
        raise AssertionError('murmur3 of the empty input with seed 0 must be (0, 0)')
    # sign extension really matters: a high tail byte must differ from canonical (unsigned) murmur3
    if _sext_byte(0x80) != 0xffffffffffffff80 or _sext_byte(0x7f) != 0x7f:
        raise AssertionError('sign extension')
    if murmur3_normalize(LONG_MIN) != LONG_MAX or murmur3_normalize(LONG_MIN + 1) != LONG_MIN + 1:
        raise AssertionError('normalize')
    if md5_token(b'123') != 42767516990368493138776584305024125808:
        raise AssertionError('md5 vector 123')
    if md5_token(b'9223372036854775807') != 28528976619278518853815276204542453639:
        raise AssertionError('md5 vector max long')
    # a digest with the top bit set must come out as the magnitude of the negative number
    k = next(bytes([i]) for i in range(256) if hashlib.md5(bytes([i])).digest()[0] >= 0x80)
    d = int.from_bytes(hashlib.md5(k).digest(), 'big')
    if md5_token(k) != (1 << 128) - d:
        raise AssertionError('md5 abs')
    if composite_key([b'ab']) != b'ab' or composite_key([b'ab', b'']) != b'\x00\x02ab\x00\x00\x00\x00':
        raise AssertionError('composite')
    return True


if __name__ == '__main__':
    selftest()
    print('partitioners selftest ok')
