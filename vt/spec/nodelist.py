"""Reference for C42: what the cluster metadata must look like after a node-list refresh.
Standard library only; shares no code with the driver.

A snapshot is (local_row, [peer rows]) as plain dicts keyed by column name (None = null).
`address_of(row)` is the address a client connects to: native_address (peers_v2) or rpc_address
(peers); a row without it is only usable when the caller supplies a fallback rule - this reference
treats a row as "missing address" when neither that column nor `peer` has a value (the case in which
only the dedicated column is null is left to the caller, see C42's assumptions).

`judge_plan` / `expected_distance` say what a datacenter-aware load-balancing policy must plan for a mirrored state.
"""


def address_of(row):
    a = row.get('native_address') if 'native_address' in row else row.get('rpc_address')
    return a or row.get('peer')


def endpoint_of(row, default_port=9042):
    """(address, port) a client connects to; the port only exists in the peers_v2 dialect"""
    return (address_of(row), row.get('native_port') or default_port)


def valid(row, need_tokens):
    if not address_of(row):
        return False
    if not row.get('host_id') or not row.get('data_center') or not row.get('rack'):
        return False
    if need_tokens and not row.get('tokens'):
        return False
    return True


def mirror(control_address, local_row, peer_rows, need_tokens):
    """-> {(address, port): {'dc', 'rack', 'host_ids' (set of acceptable ids), 'tokens' (frozenset of str) or None}}
    control node (an (address, port) pair) from system.local; one entry per distinct endpoint among the valid
    peer rows (a peer row carrying the control node's own endpoint describes no additional node)."""
    out = {control_address: {'dc': local_row.get('data_center'), 'rack': local_row.get('rack'),
                             'host_ids': set([local_row.get('host_id')]),
                             'tokens': frozenset(local_row.get('tokens') or ()) if need_tokens else None}}
    for row in peer_rows:
        if not valid(row, need_tokens):
            continue
        a = endpoint_of(row)
        if a == control_address:
            continue
        if a in out:
            out[a]['host_ids'].add(row.get('host_id'))
            out[a]['ambiguous'] = out[a].get('ambiguous') or (
                (row.get('data_center'), row.get('rack'), frozenset(row.get('tokens') or ())) !=
                (out[a]['dc'], out[a]['rack'], out[a]['tokens'] if need_tokens else frozenset(row.get('tokens') or ())))
            continue
        out[a] = {'dc': row.get('data_center'), 'rack': row.get('rack'), 'host_ids': set([row.get('host_id')]),
                  'tokens': frozenset(row.get('tokens') or ()) if need_tokens else None}
    return out


def owners(state):
    """{token string: address} of a mirrored state (token metadata on)"""
    out = {}
    for a, h in state.items():
        for t in (h['tokens'] or ()):
            out[t] = a
    return out


def primary_owner(state, token_value):
    """address owning the first ring token >= token_value (wrapping); None for an empty ring"""
    ring = sorted((int(t), a) for t, a in owners(state).items())
    if not ring:
        return None
    for t, a in ring:
        if t >= token_value:
            return a
    return ring[0][1]


def dc_partition(state, local_dc):
    """-> (local, remote, undecided) sets of endpoints of a mirrored state for a policy whose local datacenter is `local_dc`;
    undecided = endpoints described by rows that disagree (either placement is acceptable)"""
    local, remote, undecided = set(), set(), set()
    for a, h in state.items():
        if h.get('ambiguous'):
            undecided.add(a)
        elif h['dc'] == local_dc:
            local.add(a)
        else:
            remote.add(a)
    return local, remote, undecided


def expected_distance(state, a, local_dc, remote_used):
    """'LOCAL' | 'REMOTE' | 'IGNORED' for a datacenter-aware policy that uses every remote host (remote_used=True)
    or none (False); None when the rows disagree about the host"""
    if state[a].get('ambiguous'):
        return None
    if state[a]['dc'] == local_dc:
        return 'LOCAL'
    return 'REMOTE' if remote_used else 'IGNORED'


def judge_plan(plan, state, local_dc, remote_used, first=None):
    """A query plan (list of endpoints, in order) of a datacenter-aware policy judged against a mirrored state:
    every host of the local datacenter exactly once, then (remote_used) every other host exactly once or (not
    remote_used) nothing else; nothing that is not a known host; `first` (a local replica) leads when given.
    -> [(clause, text)]"""
    bad = []
    local, remote, undecided = dc_partition(state, local_dc)
    seen = set()
    for a in plan:
        if a in seen:
            bad.append(('host-planned-twice', 'host %r appears %d times' % (a, plan.count(a))))
        seen.add(a)
    for a in sorted(seen - set(state), key=repr):
        bad.append(('unknown-host-planned', '%r is not a known host' % (a,)))
    if not remote_used:
        for a in sorted(seen & remote, key=repr):
            bad.append(('remote-host-planned-by-local-only-policy', '%r is in datacenter %r, the policy uses only %r'
                        % (a, state[a]['dc'], local_dc)))
    must = local | (remote | undecided if remote_used else set())
    for a in sorted(must - seen, key=repr):
        bad.append(('known-host-not-planned', '%r (datacenter %r) is missing' % (a, state[a]['dc'])))
    pos = {}
    for i, a in enumerate(plan):
        pos.setdefault(a, i)
    li = [pos[a] for a in local if a in pos]
    ri = [pos[a] for a in remote if a in pos]
    if li and ri and max(li) > min(ri):
        bad.append(('remote-host-before-local-host', 'a host of another datacenter is planned before a host of %r' % (local_dc,)))
    if first is not None and (not plan or plan[0] != first):
        bad.append(('local-replica-not-first', 'the local replica %r does not lead' % (first,)))
    seen_clauses, out = set(), []
    for c, t in bad:
        if c not in seen_clauses:
            seen_clauses.add(c)
            out.append((c, t))
    return out


def selftest():
    loc = {'data_center': 'dc1', 'rack': 'r1', 'host_id': 'h1', 'tokens': ['0']}
    rows = [
        {'native_address': 'b', 'peer': 'b', 'host_id': 'h2', 'data_center': 'dc1', 'rack': 'r1', 'tokens': ['10']},
        {'native_address': None, 'peer': None, 'host_id': 'h3', 'data_center': 'dc1', 'rack': 'r1', 'tokens': ['20']},
        {'native_address': 'd', 'peer': 'd', 'host_id': None, 'data_center': 'dc1', 'rack': 'r1', 'tokens': ['30']},
        {'native_address': 'e', 'peer': 'e', 'host_id': 'h5', 'data_center': None, 'rack': 'r1', 'tokens': ['40']},
        {'native_address': 'f', 'peer': 'f', 'host_id': 'h6', 'data_center': 'dc1', 'rack': None, 'tokens': ['50']},
        {'native_address': 'g', 'peer': 'g', 'host_id': 'h7', 'data_center': 'dc1', 'rack': 'r1', 'tokens': []},
        {'native_address': 'b', 'peer': 'x', 'host_id': 'h8', 'data_center': 'dc1', 'rack': 'r1', 'tokens': ['10']},
        {'native_address': 'a', 'peer': 'y', 'host_id': 'h9', 'data_center': 'dc1', 'rack': 'r1', 'tokens': ['60']},
    ]
    m = mirror(('a', 9042), loc, rows, True)
    assert sorted(m) == [('a', 9042), ('b', 9042)], m
    assert m[('b', 9042)]['host_ids'] == set(['h2', 'h8'])
    assert sorted(mirror(('a', 9042), loc, rows, False)) == [('a', 9042), ('b', 9042), ('g', 9042)]
    rows2 = rows[:1] + [dict(rows[0], native_port=9043, host_id='h10')]
    assert sorted(mirror(('a', 9042), loc, rows2, True)) == [('a', 9042), ('b', 9042), ('b', 9043)]
    assert primary_owner(m, 5) == ('b', 9042) and primary_owner(m, 11) == ('a', 9042) and primary_owner(m, -3) == ('a', 9042)
    st = {'a': {'dc': 'dc1'}, 'b': {'dc': 'dc1'}, 'c': {'dc': 'dc2'}, 'd': {'dc': 'dc2', 'ambiguous': True}}
    assert dc_partition(st, 'dc1') == (set('ab'), set('c'), set('d'))
    assert judge_plan(['b', 'a', 'd', 'c'], st, 'dc1', True, first='b') == []
    assert judge_plan(['a', 'b'], st, 'dc1', False) == [] and judge_plan(['a', 'd', 'b'], st, 'dc1', False) == []
    assert [c for c, _ in judge_plan(['a', 'b', 'c', 'c'], st, 'dc1', True)] == ['host-planned-twice', 'known-host-not-planned']
    assert [c for c, _ in judge_plan(['a', 'b', 'c', 'd', 'e'], st, 'dc1', True)] == ['unknown-host-planned']
    assert [c for c, _ in judge_plan(['a', 'c', 'b', 'd'], st, 'dc1', True)] == ['remote-host-before-local-host']
    assert [c for c, _ in judge_plan(['a', 'b', 'c'], st, 'dc1', False)] == ['remote-host-planned-by-local-only-policy']
    assert [c for c, _ in judge_plan(['a', 'c', 'd'], st, 'dc1', True)] == ['known-host-not-planned']
    assert [c for c, _ in judge_plan(['a', 'b', 'c', 'd'], st, 'dc1', True, first='b')] == ['local-replica-not-first']
    assert expected_distance(st, 'a', 'dc1', True) == 'LOCAL' and expected_distance(st, 'c', 'dc1', True) == 'REMOTE'
    assert expected_distance(st, 'c', 'dc1', False) == 'IGNORED' and expected_distance(st, 'd', 'dc1', True) is None
    return True
