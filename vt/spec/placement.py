"""Reference replica placement, written from Cassandra's sources
(locator.SimpleStrategy / locator.NetworkTopologyStrategy .calculateNaturalReplicas, 4.x, and —
as a cross-check of the reference itself — the 2.x/3.0 NetworkTopologyStrategy that keeps a
LinkedHashSet of skipped endpoints).  Only the python stdlib; nothing shared with the driver.

Data model
    ring  : list of (token, host), any order, tokens distinct and mutually comparable
    locs  : dict host -> (dc, rack)
    token : the key's token
All functions return the ordered list of distinct replica hosts.

Ring walk: `TokenMetadata.ringIterator(sortedTokens, searchToken, false)` starts at
`firstToken` = the first ring token >= searchToken (wrapping to index 0) and visits every token
once.
"""
import itertools


def ring_walk(ring, token):
    """hosts in the order of TokenMetadata.ringIterator(sortedTokens, token, includeMin=false)"""
    srt = sorted(ring, key=lambda th: th[0])
    n = len(srt)
    start = n
    for i, (t, _) in enumerate(srt):
        if not (t < token):          # first ring token at or after the key's token
            start = i
            break
    if start == n:
        start = 0
    return [srt[(start + k) % n][1] for k in range(n)]


def parse_rf(rf):
    """ReplicationFactor.fromString: 'N' or 'N/T' (T transient replicas out of N) -> (all, full)"""
    if isinstance(rf, int):
        return rf, rf
    s = str(rf)
    if '/' in s:
        a, t = s.split('/')
        return int(a), int(a) - int(t)
    return int(s), int(s)


def simple_strategy(ring, rf, token):
    """SimpleStrategy.calculateNaturalReplicas: walk the ring, take distinct endpoints until
    rf.allReplicas are found.  Returns (all_replicas_in_order, number_of_full_replicas)."""
    if not ring:
        return [], 0
    return simple_strategy_walk(ring_walk(ring, token), rf)


def simple_strategy_walk(walk, rf):
    """same, given the ring walk (owners of the ring tokens starting at the key's range)"""
    rf_all, rf_full = parse_rf(rf)
    out = []
    for ep in walk:
        if len(out) >= rf_all:
            break
        if ep not in out:
            out.append(ep)
    return out, min(rf_full, len(out))


class _DatacenterEndpoints(object):
    """NetworkTopologyStrategy.DatacenterEndpoints (4.x)"""
    def __init__(self, rf_all, rf_transient, rack_count, node_count, replicas, racks):
        self.replicas = replicas            # shared ordered list (the EndpointsForRange builder)
        self.racks = racks                  # shared set of (dc, rack)
        # If there aren't enough nodes in this DC to fill the RF, the number of nodes is the effective RF.
        self.rf_left = min(rf_all, node_count)
        # If there aren't enough racks in this DC to fill the RF, we'll still use at least one node
        # from each rack, and the difference is to be filled by the first encountered nodes.
        self.acceptable_rack_repeats = rf_all - rack_count
        reduce_transients = rf_all - self.rf_left
        self.transients = max(rf_transient - reduce_transients, 0)
        self.full = []

    def done(self):
        return self.rf_left == 0

    def add_endpoint_and_check_if_done(self, ep, location):
        if self.done():
            return False
        if ep in self.replicas:
            return False                    # cannot repeat a node
        is_full = self.rf_left > self.transients
        if location not in self.racks:
            self.racks.add(location)        # new rack
            self.rf_left -= 1
            self.replicas.append(ep)
            if is_full:
                self.full.append(ep)
            return self.done()
        if self.acceptable_rack_repeats <= 0:
            return False                    # there must be rf_left distinct racks left
        self.replicas.append(ep)
        if is_full:
            self.full.append(ep)
        self.acceptable_rack_repeats -= 1
        self.rf_left -= 1
        return self.done()


def network_topology_strategy(ring, locs, dc_rf, token, detail=False):
    """NetworkTopologyStrategy.calculateNaturalReplicas (Cassandra 4.x).
    dc_rf: dict dc -> rf ('N', N or 'N/T').  Returns the ordered replica list (all replicas,
    transient ones included); with detail=True returns (all, full_replicas_set)."""
    if not ring:
        return ([], set()) if detail else []
    return network_topology_strategy_walk(ring_walk(ring, token), locs, dc_rf, detail)


def network_topology_strategy_walk(walk, locs, dc_rf, detail=False):
    """same, given the ring walk (owners of the ring tokens starting at the key's range)"""
    replicas = []
    hosts = set(walk)
    dc_nodes = {}
    dc_racks = {}
    for h in hosts:
        dc, rack = locs[h]
        dc_nodes.setdefault(dc, set()).add(h)
        dc_racks.setdefault(dc, set()).add(rack)
    seen_racks = set()
    dcs = {}
    to_fill = 0
    for dc, rf in dc_rf.items():
        rf_all, rf_full = parse_rf(rf)
        node_count = len(dc_nodes.get(dc, ()))
        if rf_all <= 0 or node_count <= 0:
            continue
        dcs[dc] = _DatacenterEndpoints(rf_all, rf_all - rf_full, len(dc_racks[dc]), node_count,
                                       replicas, seen_racks)
        to_fill += 1
    for ep in walk:
        if to_fill <= 0:
            break
        loc = locs[ep]
        d = dcs.get(loc[0])
        if d is not None and d.add_endpoint_and_check_if_done(ep, loc):
            to_fill -= 1
    if detail:
        full = set()
        for d in dcs.values():
            full.update(d.full)
        return replicas, full
    return replicas


def network_topology_strategy_legacy(ring, locs, dc_rf, token):
    """The 2.x/3.0 formulation (one pass per DC over the ring, endpoints of racks already seen are
    parked in an insertion-ordered *set* and appended once every rack of the DC has been seen).
    Kept only to cross-check the 4.x transcription: both must choose the same set."""
    replicas = []
    if not ring:
        return replicas
    hosts = set(h for _, h in ring)
    walk = ring_walk(ring, token)
    for dc, rf in dc_rf.items():
        rf_all, _ = parse_rf(rf)
        dc_hosts = set(h for h in hosts if locs[h][0] == dc)
        racks = set(locs[h][1] for h in dc_hosts)
        if rf_all <= 0 or not dc_hosts:
            continue
        want = min(rf_all, len(dc_hosts))
        dc_replicas = []
        seen = set()
        skipped = []          # LinkedHashSet
        for ep in walk:
            if len(dc_replicas) >= want:
                break
            if locs[ep][0] != dc or ep in dc_replicas:
                continue
            if len(seen) == len(racks):
                dc_replicas.append(ep)
                continue
            rack = locs[ep][1]
            if rack in seen:
                if ep not in skipped:
                    skipped.append(ep)
                continue
            dc_replicas.append(ep)
            seen.add(rack)
            if len(seen) == len(racks):
                for s in skipped:
                    if len(dc_replicas) >= want:
                        break
                    if s not in dc_replicas:
                        dc_replicas.append(s)
        replicas.extend(dc_replicas)
    return replicas


def selftest(deep=False, light=False):
    """fixed examples + cross-check of the two NTS formulations on all small rings:
    light: <=3 hosts; default: + 4 hosts x 1 token; deep: + 4 hosts, 5 tokens"""
    # --- fixed examples (the expectations of /repo/tests/unit/test_metadata.py StrategiesTest, and
    #     hand-derived ones)
    ring = [(0, 'a'), (100, 'b'), (200, 'c')]
    assert simple_strategy(ring, '1', 0)[0] == ['a']
    assert simple_strategy(ring, '2', 100)[0] == ['b', 'c']
    assert simple_strategy(ring, '2', 150)[0] == ['c', 'a']
    assert simple_strategy(ring, '3', 201)[0] == ['a', 'b', 'c']       # wrap around
    assert simple_strategy(ring, '7', 1)[0] == ['b', 'c', 'a']         # rf > hosts
    assert simple_strategy([(0, 'a'), (1, 'a'), (2, 'b')], 2, 0)[0] == ['a', 'b']   # rf hosts, not rf tokens
    assert simple_strategy(ring, '3/1', 0) == (['a', 'b', 'c'], 2)

    # test_nts_make_token_replica_map
    locs = {'11': ('dc1', 'rack1'), '12': ('dc1', 'rack1'), '13': ('dc1', 'rack1'),
            '21': ('dc2', 'rack1'), '22': ('dc2', 'rack1'), '31': ('dc3', 'rack3')}
    ring = [(0, '11'), (100, '12'), (200, '13'), (1, '21'), (101, '22'), (2, '31')]
    got = network_topology_strategy(ring, locs, {'dc1': 2, 'dc2': 2, 'dc3': 1}, 0)
    assert set(got) == {'11', '12', '21', '22', '31'} and len(got) == 5, got
    # test_nts_make_token_replica_map_multi_rack
    locs = {'11': ('dc1', 'rack1'), '12': ('dc1', 'rack1'), '13': ('dc1', 'rack2'), '14': ('dc1', 'rack2'),
            '21': ('dc2', 'rack1'), '22': ('dc2', 'rack1'), '23': ('dc2', 'rack2')}
    ring = [(0, '11'), (100, '12'), (200, '13'), (300, '14'), (1, '21'), (101, '22'), (201, '23')]
    got = network_topology_strategy(ring, locs, {'dc1': 3, 'dc2': 2}, 0)
    assert set(got) == {'11', '12', '13', '21', '23'} and len(got) == 5, got
    # rf above node count, DC without nodes, rf 0
    got = network_topology_strategy([(0, 'x')], {'x': ('dc1', 'r')}, {'dc1': 3, 'dc2': 2, 'dc9': 0}, 5)
    assert got == ['x']
    # rack-aware: rf 2, racks r1 r1 r2 -> a, c (b is a rack repeat and no repeat is acceptable)
    locs = {'a': ('d', 'r1'), 'b': ('d', 'r1'), 'c': ('d', 'r2'), 'e': ('d', 'r1')}
    ring = [(0, 'a'), (10, 'b'), (20, 'c'), (30, 'e')]
    assert network_topology_strategy(ring, locs, {'d': 2}, 0) == ['a', 'c']
    # rf 3 with 2 racks: one repeat acceptable, taken at once -> a, b, c
    assert network_topology_strategy(ring, locs, {'d': 3}, 0) == ['a', 'b', 'c']
    # rf 4: a, b (repeat), then 'b' again must not be added twice; c; then e
    ring2 = [(0, 'a'), (10, 'b'), (15, 'b'), (20, 'c'), (30, 'e')]
    assert network_topology_strategy(ring2, locs, {'d': 4}, 0) == ['a', 'b', 'c', 'e']
    assert set(network_topology_strategy_legacy(ring2, locs, {'d': 4}, 0)) == {'a', 'b', 'c', 'e'}
    # transient: 3/1 -> the last one added is transient
    allr, full = network_topology_strategy(ring, locs, {'d': '3/1'}, 0, detail=True)
    assert allr == ['a', 'b', 'c'] and full == {'a', 'b'}

    # --- the two formulations of NTS agree (as sets, and in size) on every small ring
    n_cmp = 0
    hosts = 'abcd'
    loc_choices = [('d1', 'r1'), ('d1', 'r2'), ('d2', 'r1'), ('d2', 'r2')]
    for nh in ((1, 2, 3) if light else (1, 2, 3, 4)):
        for assign in itertools.product(loc_choices, repeat=nh):
            locs = dict(zip(hosts, assign))
            for extra in range(0, 2 if (deep or nh <= 3) else 1):
                owners_sets = itertools.product(hosts[:nh], repeat=nh + extra)
                for owners in owners_sets:
                    if set(owners) != set(hosts[:nh]):
                        continue
                    ring = [(10 * i, h) for i, h in enumerate(owners)]
                    for rf1 in (0, 1, 2, 3, 4):
                        for rf2 in (0, 2):
                            for tok in (0, 5, 10 * len(owners)):
                                a = network_topology_strategy(ring, locs, {'d1': rf1, 'd2': rf2}, tok)
                                b = network_topology_strategy_legacy(ring, locs, {'d1': rf1, 'd2': rf2}, tok)
                                n_cmp += 1
                                if set(a) != set(b) or len(a) != len(set(a)) or len(b) != len(a):
                                    raise AssertionError('NTS formulations differ: %r %r %r -> %r vs %r' % (
                                        ring, locs, (rf1, rf2, tok), a, b))
    return n_cmp


if __name__ == '__main__':
    import sys
    print('placement selftest ok, %d NTS cross-comparisons' % selftest(deep="--full" in sys.argv))
