"""Independent lexer / literal reader for the subset of CQL the driver emits.

Written from Cassandra's grammar (src/antlr/Lexer.g, Parser.g of Cassandra 3.x/4.x, formerly
Cql.g) and cql3/ReservedKeywords.java; only the python stdlib is used and nothing is shared
with /repo.

Lexer rules followed (Lexer.g):

    STRING_LITERAL    '...' with '' for a quote, or $$...$$
    QUOTED_NAME       "..." with "" for a quote, at least one character
    EMPTY_QUOTED_NAME ""
    INTEGER           '-'? DIGIT+
    FLOAT             INTEGER EXPONENT | INTEGER '.' DIGIT* EXPONENT?      (not before a second '.')
    BOOLEAN           T R U E | F A L S E                (listed before IDENT, so never an IDENT)
    DURATION          '-'? (DIGIT+ unit)+ | '-'? 'P' ...                     (kept as raw text)
    IDENT             LETTER (LETTER | DIGIT | '_')*     LETTER = [A-Za-z] only
    HEXNUMBER         '0' X HEX*
    UUID              8-4-4-4-12 hex digits
    WS                ' ' '\\t' '\\n' '\\r'               (hidden)
    COMMENT           '--' or '//' to end of line, '/* ... */'   (hidden)

Keywords are case-insensitive IDENT-shaped words; an unquoted identifier is folded to lower
case by Cassandra; a reserved keyword cannot be used as an unquoted identifier.

Parser rules followed for literals (Parser.g `value`, `constant`, `collectionLiteral`,
`usertypeLiteral`, `tupleLiteral`):

    constant   : STRING | INTEGER | FLOAT | BOOLEAN | DURATION | UUID | HEXNUMBER
               | '-'? (NAN | INFINITY)
    list       : '[' (term (',' term)*)? ']'
    set / map  : '{' '}' | '{' term (',' term)* '}' | '{' term ':' term (',' term ':' term)* '}'
    UDT        : '{' ident ':' term (',' ident ':' term)* '}'
    tuple      : '(' term (',' term)* ')'
    NULL

Functions, casts and bind markers are not literals and are rejected by `read_term`.
"""
import re
import uuid as _uuid


class CqlError(ValueError):
    """The text is not what was asked for (lexing or parsing failed)."""


# ------------------------------------------------------------------------------------------
# keyword lists (Cassandra 4.x; ReservedKeywords.java and Parser.g unreserved_keyword)

RESERVED = frozenset('''
select from where and entries full insert update with limit using use set begin unlogged batch
apply truncate delete in create keyspace schema columnfamily table materialized view index on to
drop primary into alter rename add order by asc desc allow if is grant of revoke modify authorize
describe execute norecursive token null not nan infinity or replace default unset mbean mbeans
'''.split())

# Parser.g: basic_unreserved_keyword + native_type names + (TTL COUNT WRITETIME KEY CAST JSON DISTINCT)
# (4.0 list, plus the ones later minor versions added; all of them may be used as bare identifiers)
UNRESERVED = frozenset('''
keys as clustering compact storage tables type types values map list filtering permission
permissions keyspaces all user users role roles superuser nosuperuser login nologin options
password hashed exists custom trigger contains internals only static frozen tuple function
functions aggregate aggregates sfunc stype finalfunc initcond returns language called input like
per partition group datacenters cidrs access identity
ascii bigint blob boolean counter decimal double duration float inet int smallint text timestamp
tinyint uuid varchar varint timeuuid date time
ttl count writetime maxwritetime key cast json distinct
masked unmask select_masked vector ann
'''.split())

BOOLEAN_WORDS = frozenset(('true', 'false'))


def is_reserved(word):
    """True iff Cassandra refuses `word` (any letter case) as an unquoted identifier because it is a
    reserved keyword."""
    return word.lower() in RESERVED


# ------------------------------------------------------------------------------------------
# tokens

class Tok(tuple):
    """(kind, value, text)   kind in
    ident quoted_name empty_quoted_name string integer float boolean uuid hex duration punct"""
    __slots__ = ()

    def __new__(cls, kind, value, text):
        return tuple.__new__(cls, (kind, value, text))

    kind = property(lambda s: s[0])
    value = property(lambda s: s[1])
    text = property(lambda s: s[2])

    def key(self):
        """what must be equal for two statements to have 'the same token' here"""
        v = self[1]
        if self[0] == 'float':
            v = self[2].lower()
        return (self[0], v)


_LETTER = 'abcdefghijklmnopqrstuvwxyzABCDEFGHIJKLMNOPQRSTUVWXYZ'
_DIGIT = '0123456789'
_HEX = '0123456789abcdefABCDEF'
_IDENT_REST = _LETTER + _DIGIT + '_'

_uuid_re = re.compile(r'[0-9a-fA-F]{8}-[0-9a-fA-F]{4}-[0-9a-fA-F]{4}-[0-9a-fA-F]{4}-[0-9a-fA-F]{12}')
_number_re = re.compile(r'-?[0-9]+')
_exp_re = re.compile(r'[eE][+-]?[0-9]+')
_dur_units = r'(?:[yY]|[mM][oO]|[wW]|[dD]|[hH]|[mM][sS]|[uU][sS]|µ[sS]|[nN][sS]|[mM]|[sS])'
_duration_re = re.compile(r'-?(?:[0-9]+' + _dur_units + r')+')
_iso_duration_re = re.compile(
    r'-?P(?:[0-9]+W|[0-9]{4}-[0-9]{2}-[0-9]{2}T[0-9]{2}:[0-9]{2}:[0-9]{2}'
    r'|(?:[0-9]+Y)?(?:[0-9]+M)?(?:[0-9]+D)?(?:T(?:[0-9]+H)?(?:[0-9]+M)?(?:[0-9]+S)?)?)')
_TWO_CHAR_PUNCT = ('<=', '>=', '!=', '..', '+=', '-=')
_ONE_CHAR_PUNCT = '()[]{},:;.=<>+-*/%?@'


def tokens(text):
    """Lex `text` completely; returns a list of Tok; raises CqlError on a character sequence
    Cassandra's lexer has no rule for (or an unterminated string / name / comment)."""
    if not isinstance(text, str):
        raise CqlError('not a text: %r' % (type(text),))
    out = []
    i, n = 0, len(text)
    while i < n:
        c = text[i]
        # hidden channel
        if c in ' \t\n\r':
            i += 1
            continue
        if (c == '-' or c == '/') and text.startswith(c + c, i):
            j = i
            while j < n and text[j] not in '\n\r':
                j += 1
            i = j
            continue
        if c == '/' and text.startswith('/*', i):
            j = text.find('*/', i + 2)
            if j < 0:
                raise CqlError('unterminated comment at %d' % i)
            i = j + 2
            continue
        # strings
        if c == "'":
            j = i + 1
            buf = []
            while True:
                if j >= n:
                    raise CqlError('unterminated string literal at %d' % i)
                if text[j] == "'":
                    if j + 1 < n and text[j + 1] == "'":
                        buf.append("'")
                        j += 2
                        continue
                    break
                buf.append(text[j])
                j += 1
            out.append(Tok('string', ''.join(buf), text[i:j + 1]))
            i = j + 1
            continue
        if c == '$' and text.startswith('$$', i):
            j = text.find('$$', i + 2)
            if j < 0:
                raise CqlError('unterminated $$ string at %d' % i)
            # Cassandra stops at the first '$$'; a third '$' right after would start a new token
            out.append(Tok('string', text[i + 2:j], text[i:j + 2]))
            i = j + 2
            continue
        if c == '"':
            if text.startswith('""', i) and not text.startswith('"""', i):
                out.append(Tok('empty_quoted_name', '', '""'))
                i += 2
                continue
            j = i + 1
            buf = []
            while True:
                if j >= n:
                    raise CqlError('unterminated quoted name at %d' % i)
                if text[j] == '"':
                    if j + 1 < n and text[j + 1] == '"':
                        buf.append('"')
                        j += 2
                        continue
                    break
                buf.append(text[j])
                j += 1
            if not buf:
                raise CqlError('bad quoted name at %d' % i)
            out.append(Tok('quoted_name', ''.join(buf), text[i:j + 1]))
            i = j + 1
            continue
        # uuid (may start with a digit or a hex letter) wins over number / identifier
        if c in _HEX:
            m = _uuid_re.match(text, i)
            if m and (m.end() == n or text[m.end()] not in _IDENT_REST):
                out.append(Tok('uuid', _uuid.UUID(m.group()), m.group()))
                i = m.end()
                continue
        # numbers
        if c in _DIGIT or (c == '-' and i + 1 < n and text[i + 1] in _DIGIT):
            m = _duration_re.match(text, i)
            if m and (m.end() == n or text[m.end()] not in _IDENT_REST):
                out.append(Tok('duration', m.group(), m.group()))
                i = m.end()
                continue
            if c == '0' and i + 1 < n and text[i + 1] in 'xX':
                j = i + 2
                while j < n and text[j] in _HEX:
                    j += 1
                h = text[i + 2:j]
                if len(h) % 2:
                    # Cassandra lexes it, then rejects the constant ("odd number of hex digits")
                    out.append(Tok('hex', None, text[i:j]))
                else:
                    out.append(Tok('hex', bytes.fromhex(h), text[i:j]))
                i = j
                continue
            m = _number_re.match(text, i)
            j = m.end()
            is_float = False
            if j < n and text[j] == '.' and not text.startswith('..', j):
                k = j + 1
                while k < n and text[k] in _DIGIT:
                    k += 1
                e = _exp_re.match(text, k)
                if e:
                    k = e.end()
                j = k
                is_float = True
            else:
                e = _exp_re.match(text, j)
                if e:
                    j = e.end()
                    is_float = True
            t = text[i:j]
            if is_float:
                out.append(Tok('float', t, t))
            else:
                out.append(Tok('integer', int(t), t))
            i = j
            continue
        if c == '-' and text.startswith('-P', i):
            m = _iso_duration_re.match(text, i)
            if m and len(m.group()) > 2 and (m.end() == n or text[m.end()] not in _IDENT_REST):
                out.append(Tok('duration', m.group(), m.group()))
                i = m.end()
                continue
        # words
        if c in _LETTER:
            j = i + 1
            while j < n and text[j] in _IDENT_REST:
                j += 1
            w = text[i:j]
            lw = w.lower()
            if c == 'P':
                m = _iso_duration_re.match(text, i)
                if m and m.end() == j and len(m.group()) > 1:
                    out.append(Tok('duration', w, w))
                    i = j
                    continue
            if lw in BOOLEAN_WORDS:
                out.append(Tok('boolean', lw == 'true', w))
            else:
                out.append(Tok('ident', lw, w))
            i = j
            continue
        two = text[i:i + 2]
        if two in _TWO_CHAR_PUNCT:
            out.append(Tok('punct', two, two))
            i += 2
            continue
        if c in _ONE_CHAR_PUNCT:
            out.append(Tok('punct', c, c))
            i += 1
            continue
        raise CqlError('no lexer rule for %r at %d' % (c, i))
    return out


# ------------------------------------------------------------------------------------------
# identifiers

def read_identifier(text):
    """`text` must be exactly one identifier token; returns the name Cassandra will use
    (unquoted: folded to lower case; quoted: unescaped, case preserved).  Raises CqlError when
    the text is not one identifier (several tokens, a constant, a reserved keyword, ...)."""
    toks = tokens(text)
    if len(toks) != 1:
        raise CqlError('%d tokens, not one identifier: %r' % (len(toks), [t.text for t in toks][:6]))
    t = toks[0]
    if t.kind == 'quoted_name' or t.kind == 'empty_quoted_name':
        return t.value
    if t.kind == 'ident':
        if t.value in RESERVED:
            raise CqlError('reserved keyword used as a bare identifier: %r' % t.text)
        return t.value
    raise CqlError('a %s, not an identifier: %r' % (t.kind, t.text))


# ------------------------------------------------------------------------------------------
# terms

class FloatLit(float):
    """A FLOAT token (or NaN / Infinity): the float value plus the literal text (for decimals)."""
    def __new__(cls, text):
        self = float.__new__(cls, text)
        self.text = text
        return self


class CqlSet(list):
    """set literal {a, b}: the elements in written order (duplicates kept)"""


class CqlMap(list):
    """map literal {k: v, ...}: list of (key, value) pairs in written order"""


class CqlUdt(list):
    """user type literal {field: v, ...}: list of (field name, value)"""


class EmptyBraces(object):
    """`{}`: the empty set or the empty map, whichever the column is"""
    def __eq__(self, other):
        return isinstance(other, EmptyBraces)

    def __hash__(self):
        return 0

    def __repr__(self):
        return 'EmptyBraces()'


class Duration(str):
    pass


class _P(object):
    def __init__(self, toks):
        self.toks = toks
        self.i = 0

    def peek(self, k=0):
        return self.toks[self.i + k] if self.i + k < len(self.toks) else None

    def is_punct(self, p, k=0):
        t = self.peek(k)
        return t is not None and t.kind == 'punct' and t.value == p

    def next(self):
        t = self.peek()
        if t is None:
            raise CqlError('unexpected end of input')
        self.i += 1
        return t

    def expect(self, p):
        t = self.next()
        if t.kind != 'punct' or t.value != p:
            raise CqlError('expected %r, found %r' % (p, t.text))

    def term(self, depth=0):
        if depth > 64:
            raise CqlError('nesting too deep')
        t = self.next()
        k = t.kind
        if k == 'string':
            return t.value
        if k == 'integer':
            return t.value
        if k == 'float':
            return FloatLit(t.value)
        if k == 'boolean':
            return t.value
        if k == 'uuid':
            return t.value
        if k == 'hex':
            if t.value is None:
                raise CqlError('hex constant with an odd number of digits: %r' % t.text)
            return t.value
        if k == 'duration':
            return Duration(t.value)
        if k == 'ident':
            if t.value == 'null':
                return None
            if t.value == 'nan':
                return FloatLit('NaN')
            if t.value == 'infinity':
                return FloatLit('Infinity')
            raise CqlError('a bare word is not a literal: %r' % t.text)
        if k == 'punct':
            if t.value == '-':
                u = self.next()
                if u.kind == 'ident' and u.value == 'nan':
                    return FloatLit('NaN')      # Cassandra parses "-NaN" with Double.parseDouble: still NaN
                if u.kind == 'ident' and u.value == 'infinity':
                    return FloatLit('-Infinity')
                raise CqlError("'-' not followed by NaN/Infinity: %r" % u.text)
            if t.value == '[':
                items = []
                if self.is_punct(']'):
                    self.next()
                    return items
                while True:
                    items.append(self.term(depth + 1))
                    if self.is_punct(','):
                        self.next()
                        continue
                    self.expect(']')
                    return items
            if t.value == '(':
                items = [self.term(depth + 1)]
                while self.is_punct(','):
                    self.next()
                    items.append(self.term(depth + 1))
                self.expect(')')
                return tuple(items)
            if t.value == '{':
                if self.is_punct('}'):
                    self.next()
                    return EmptyBraces()
                # UDT literal: ident ':' ...
                p = self.peek()
                if p is not None and p.kind in ('ident', 'quoted_name') and self.is_punct(':', 1) \
                        and not (p.kind == 'ident' and p.value in ('null', 'nan', 'infinity')):
                    fields = CqlUdt()
                    while True:
                        f = self.next()
                        if f.kind not in ('ident', 'quoted_name'):
                            raise CqlError('field name expected, found %r' % f.text)
                        if f.kind == 'ident' and f.value in RESERVED:
                            raise CqlError('reserved keyword as field name: %r' % f.text)
                        self.expect(':')
                        fields.append((f.value, self.term(depth + 1)))
                        if self.is_punct(','):
                            self.next()
                            continue
                        self.expect('}')
                        return fields
                first = self.term(depth + 1)
                if self.is_punct(':'):
                    self.next()
                    pairs = CqlMap([(first, self.term(depth + 1))])
                    while self.is_punct(','):
                        self.next()
                        kk = self.term(depth + 1)
                        self.expect(':')
                        pairs.append((kk, self.term(depth + 1)))
                    self.expect('}')
                    return pairs
                items = CqlSet([first])
                while self.is_punct(','):
                    self.next()
                    items.append(self.term(depth + 1))
                self.expect('}')
                return items
        raise CqlError('not the start of a literal: %r' % t.text)


def parse_term(toks):
    """All of the token list `toks` must be exactly one literal term."""
    p = _P(list(toks))
    v = p.term()
    if p.i != len(p.toks):
        raise CqlError('trailing tokens after the term: %r' % [t.text for t in p.toks[p.i:p.i + 6]])
    return v


def read_term(text):
    """`text` must be exactly one literal term.  Returns a python value tree:
    str (string), int (integer), FloatLit (float / NaN / Infinity), bool, uuid.UUID, bytes (blob),
    None (NULL), list (list literal), CqlSet, CqlMap, CqlUdt, tuple, EmptyBraces, Duration.
    Raises CqlError otherwise."""
    return parse_term(tokens(text))


# ------------------------------------------------------------------------------------------

def selftest():
    """Fixed vectors: Cassandra documentation examples and grammar corner cases."""
    U = _uuid.UUID
    ok = [
        ("'a''b'", "a'b"), ("''", ''), ("$$a'b$$", "a'b"), ("'é\n😀'", 'é\n😀'),
        ('0', 0), ('-12', -12), ('1.5', 1.5), ('-0.0', -0.0), ('1e+16', 1e16), ('5e-324', 5e-324),
        ('1E5', 1e5), ('1.', 1.0), ('NaN', None), ('nan', None), ('Infinity', float('inf')),
        ('-Infinity', float('-inf')), ('- infinity', float('-inf')),
        ('true', True), ('FALSE', False), ('null', None), ('NULL', None),
        ('0x', b''), ('0xCAFE', b'\xca\xfe'), ('0Xff', b'\xff'),
        ('123e4567-e89b-12d3-a456-426655440000', U('123e4567-e89b-12d3-a456-426655440000')),
        ('00000000-0000-0000-0000-000000000000', U(int=0)),
        ('DEADBEEF-0000-1000-8000-000000000000', U('deadbeef-0000-1000-8000-000000000000')),
        ('[]', []), ('[1, 2]', [1, 2]), ("{'a', 'b'}", CqlSet(['a', 'b'])), ('{}', EmptyBraces()),
        ("{'k': 1, 'l': 2}", CqlMap([('k', 1), ('l', 2)])), ("(1, 'a')", (1, 'a')),
        ("{a: 1, \"B\": 'x'}", CqlUdt([('a', 1), ('B', 'x')])),
        ("[[1], {2}, {3: (4, 5)}]", [[1], CqlSet([2]), CqlMap([(3, (4, 5))])]),
        ("'a' -- c", 'a'), ("/* x */ 1", 1), ('1h30m', Duration('1h30m')), ('P1Y2M', Duration('P1Y2M')),
    ]
    for text, want in ok:
        got = read_term(text)
        if text.lower() in ('nan',):
            assert got != got, text
            continue
        assert got == want and type(got).__name__ in (type(want).__name__, 'FloatLit', 'NoneType'), (text, got, want)
        if isinstance(want, float):
            import struct
            assert struct.pack('>d', got) == struct.pack('>d', want), text
        if isinstance(want, bool) or isinstance(got, bool):
            assert type(got) is type(want), text
    bad = ["'a", "a", "1 2", "'a' 'b'", "x' OR 1=1", "'a'; DROP", "0xabc", "()", "[1,]", "{1:}", "{1, 2: 3}",
           "b'ab'", "1.0.0", "é", "'a'\\", "\x00", "12:30:00", "2020-01-01", "inf", "1..2", "now()", "?", "",
           "[1", "{a: }", "(1", "-", "- 1", "#", "select"]
    for text in bad:
        try:
            v = read_term(text)
        except CqlError:
            continue
        raise AssertionError('read_term(%r) = %r should fail' % (text, v))
    ids = [('abc', 'abc'), ('AbC', 'abc'), ('a_1', 'a_1'), ('"AbC"', 'AbC'), ('"a""b"', 'a"b'), ('""', ''),
           ('"select"', 'select'), ('key', 'key'), ('TEXT', 'text'), (' abc\n', 'abc'), ('"a b"', 'a b'),
           ('"é"', 'é'), ('"\n"', '\n'), ('ttl', 'ttl'), ('deadbeef', 'deadbeef'), ('e1', 'e1')]
    for text, want in ids:
        assert read_identifier(text) == want, (text, read_identifier(text))
    bad_ids = ['select', 'SELECT', 'Table', '1a', 'a b', 'a-b', '"a', 'a"', "'a'", 'é', '_a', '', '"a"b', 'true',
               'False', 'null', 'nan', 'a.b', '"a""', 'a\x00', '0x12', 'token', 'mbean', 'default', 'unset',
               '1h', '123e4567-e89b-12d3-a456-426655440000']
    for text in bad_ids:
        try:
            v = read_identifier(text)
        except CqlError:
            continue
        raise AssertionError('read_identifier(%r) = %r should fail' % (text, v))
    assert [t.kind for t in tokens("SELECT * FROM t WHERE a = 'x' AND b=-1 AND c<=0x0A;")] == \
        ['ident', 'punct', 'ident', 'ident', 'ident', 'ident', 'punct', 'string', 'ident', 'ident', 'punct',
         'integer', 'ident', 'ident', 'punct', 'hex', 'punct']
    assert [t.text for t in tokens('a-1 1abc 1.5e3x')] == ['a', '-1', '1', 'abc', '1.5e3', 'x']
    assert len(RESERVED) == 62 and not (RESERVED & UNRESERVED)
    assert is_reserved('Select') and not is_reserved('key') and not is_reserved('true')
    # Lexer.g STRING_LITERAL / QUOTED_NAME: the only escape is the doubled quote character; backslash, '$', '%',
    # ';', comment markers, NUL and tab are ordinary characters inside the quotes
    for text, want in (("'a\\b'", 'a\\b'), ("'\\'", '\\'), ("'\\\\'", '\\\\'), ("'\\'''", "\\'"), ("'\\n'", '\\n'),
                       ("'$$'", '$$'), ("'%s'", '%s'), ("';'", ';'), ("'--'", '--'), ("'//'", '//'), ("'/**/'", '/**/'),
                       ("'\x00'", '\x00'), ("'\t'", '\t'), ("'\"'", '"'), ("$$\\'$$", "\\'")):
        toks = tokens(text)
        assert len(toks) == 1 and toks[0].kind == 'string' and toks[0].value == want, (text, toks)
    for text, want in (('"a\\b"', 'a\\b'), ('"\\"', '\\'), ('"\\"""', '\\"'), ('"--"', '--'), ('"$"', '$'), ('"\'"', "'"),
                       ('"\t"', '\t'), ('"/*"', '/*')):
        assert read_identifier(text) == want, (text, read_identifier(text))
    for text in ("'\\''", "'a\\'b'", '"\\""'):          # a backslash does not protect the quote after it
        try:
            v = tokens(text)
        except CqlError:
            continue
        assert len(v) != 1, (text, v)
    return True


if __name__ == '__main__':
    selftest()
    print('cqllex selftest ok')
