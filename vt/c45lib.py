"""World, tracker, drain and judge shared by the two layers of the C45 check.

A real Cluster + Session over the virtual server.  Every connection ever constructed is a
`C45Conn` that remembers who opened it (control connection, pool creation, pool replacement,
host reconnection probe), in which shutdown phase it was opened and in which phase its handshake
completed.  `judge()` is the oracle: it first drains the world by a fixed default continuation
(answers delivered, queued tasks run FIFO, scheduler entries fired in deadline order) and then
looks at the set of open connections, at every connection ATTEMPT (constructed `C45Conn`, also
refused ones and ones closed again at once: in which shutdown phase its activity began, and in
which phase the previous attempt of the same activity had ended) and probes the API
(`execute_async`, `connect`).  The virtual nodes can fail a new connection in every way a node
can (`FAULTS`), and the application can change the session keyspace (`use_keyspace`).
"""
import sys

import itertools

from vt.world import vworld
from vt.world.vworld import World, VServer, HostSpec, VConnection   # noqa: F401  (imports the driver)
from vt.world import wire
from vt.vthreading import RT, VEvent
from vt.core import HarnessError

from cassandra import DriverException
from cassandra.cluster import ExecutionProfile, EXEC_PROFILE_DEFAULT
from cassandra.policies import ConstantReconnectionPolicy
from cassandra.query import SimpleStatement
from vt.reqworld import FixedOrderPolicy

# innermost driver function on the stack when a connection object is constructed -> who opened it
CREATOR_BY_FUNC = (('_try_connect', 'control'), ('try_reconnect', 'probe'), ('_replace', 'replace'),
                   ('_add_conn_if_under_max', 'grow'), ('run_add_or_renew_pool', 'pool'))
POOL_KINDS = ('pool', 'replace', 'grow')


class RotatingPolicy(FixedOrderPolicy):
    """Requests rotate over the live hosts in address order (request k starts at host k mod n);
    the control connection (no query) always sees the address order."""
    def __init__(self):
        FixedOrderPolicy.__init__(self)
        self.calls = 0

    def make_query_plan(self, working_keyspace=None, query=None):
        hosts = FixedOrderPolicy.make_query_plan(self, working_keyspace, query)
        if query is None or not hosts:
            return hosts
        k = self.calls % len(hosts)
        self.calls += 1
        return hosts[k:] + hosts[:k]


def _creator():
    f = sys._getframe(2)
    names = dict(CREATOR_BY_FUNC)
    while f is not None:
        n = f.f_code.co_name
        if n in names and f.f_code.co_filename.endswith(('cluster.py', 'pool.py')):
            return names[n]
        f = f.f_back
    return 'other'


_BaseFuture = vworld.VFuture


class DetFuture(_BaseFuture):
    """Executor future whose hash is its creation number in this world (times the world's `future_order`):
    the driver keeps futures in sets (Session._initial_connect_futures) and iterates them, and with the
    default id()-based hash the iteration order would change from run to run."""
    def __init__(self, label=''):
        _BaseFuture.__init__(self, label)
        w = RT.world
        n = next(w.c45_futseq)
        self._hseq = n if w.c45_future_order > 0 else 1000000 - n
        # the task was handed to the executor when Cluster.shutdown() had already stopped the scheduler
        self.c45_after_stop = w.c45.sched_stopped

    def __hash__(self):
        return self._hseq


class Tracker(object):
    """Shutdown phase bookkeeping of one world."""
    def __init__(self):
        self.kind = None          # None | 'cluster' | 'session'
        # None (not shut down) | 'in' (inside the shutdown call) | 'draining' (Cluster.shutdown() has done its own
        # work -- flags set, scheduler, control connection and sessions shut down -- and is inside
        # executor.shutdown(wait=True), i.e. only waits for tasks) | 'returned'; suffix '2' = the cluster shutdown
        # that follows a judged Session.shutdown()
        self.phase = None
        self.at_shutdown = {}     # flags describing the state the shutdown was injected into
        self.stage2 = False       # session shutdown already followed by the cluster's
        self.shutdown_exc = None
        self.activity = {}        # thread -> phase in which the executor task it is running was started
        self.attempt_end = {}     # thread -> phase in which the latest connection attempt of its current activity ended
        self.attempt_log = []     # [phase at the start of Connection.factory(), phase at its end, 'connected'|'failed']
        self.running = {}         # thread -> Activity of the executor task it is running now
        self.handler_runs = []    # Activity of every _ReconnectionHandler.run task (scheduled reconnection attempt) that was run
        self.sched_stopped = False  # Cluster.shutdown() has stopped the scheduler (_Scheduler.shutdown() returned)

    @staticmethod
    def me():
        s = RT.sched
        return s.current.tid if s is not None and s.current is not None else 'main'

    def activity_phase(self):
        """phase in which the activity that is running now began: for code inside an executor task the
        phase at the start of the task, else the current phase"""
        return self.activity.get(self.me(), self.phase)

    def begin_activity(self):
        """A new activity (executor task, explorer event) begins on this thread."""
        self.attempt_end.pop(self.me(), None)

    def attempt_ended(self):
        """The running activity's connection attempt is over (factory returned or raised, or the activity
        called close() on a connection): from here on the activity can know about a completed shutdown."""
        self.attempt_end[self.me()] = self.phase

    def draining(self):
        if self.phase in ('in', 'in2'):
            self.phase = 'draining' + self.phase[2:]


class Activity(object):
    """One executor task while and after it runs: what it is and the connections it constructed.  For a scheduled
    reconnection attempt (`_ReconnectionHandler.run` of a control-connection or host reconnection handler) also the
    handler and whether it was cancelled before / while the attempt ran."""
    def __init__(self, label, fn, fut=None):
        self.label = label
        self.conns = []
        # the task was asked for (handed to the executor) after Cluster.shutdown() had stopped the scheduler
        self.requested_after_stop = bool(getattr(fut, 'c45_after_stop', False))
        h = getattr(fn, '__self__', None)
        self.handler = h if label.endswith('ReconnectionHandler.run') and hasattr(h, '_cancelled') else None
        self.kind = None if self.handler is None else 'control' if hasattr(self.handler, 'control_connection') else 'host'
        self.cancelled_at_start = self.handler._cancelled if self.handler is not None else None
        self.cancelled_at_connect = None   # ... when the latest Connection.factory() call of the attempt returned or raised
        self.cancelled_at_end = None

    def cancelled_during_attempt(self):
        """The handler was cancelled (ControlConnection.shutdown(), Cluster.on_up() / on_remove() / a newer reconnector) after
        this attempt had begun and before it was over.  A host reconnection attempt is over when its connection is there
        (its callback, Cluster.on_up(), cancels the handler itself); a control connection attempt goes on on the new
        connection (REGISTER, system tables) until the task ends."""
        if self.handler is None or self.cancelled_at_start:
            return False
        return bool(self.cancelled_at_connect if self.kind == 'host' else self.cancelled_at_end)

    def stage(self):
        """None (no connection of this activity is open) | 'connecting' (opened, handshake under way) | 'connected'
        (handshake done, the task goes on using it: registering watchers, reading the system tables, refreshing)"""
        live = [c for c in self.conns if c.opened and not c.is_closed]
        if not live:
            return None
        return 'connecting' if any(c.handshake_phase == 'never' for c in live) else 'connected'


class _HandshakeEvent(VEvent):
    """connected_event that remembers in which shutdown phase the handshake finished."""
    def __init__(self, conn):
        VEvent.__init__(self)
        self._conn = conn

    def set(self):
        c = self._conn
        if not self._flag and c.handshake_phase == 'never':
            ok = not c.is_closed and not c.is_defunct and c.last_error is None
            c.handshake_phase = (c.world.c45.phase or 'before') if ok else 'failed'
        VEvent.set(self)


class C45Conn(VConnection):
    creator = 'other'
    opened = False            # the server accepted the TCP connection
    open_phase = None         # shutdown phase when the connection object was constructed
    activity_phase = None     # shutdown phase when the executor task that constructed it was started
    prev_attempt_end = None   # shutdown phase when the previous connection attempt of the same activity ended (None: first attempt
    #                           of the activity, or the previous one ended before the shutdown was called)
    handshake_phase = 'never'
    fault = None              # (kind, k): how the node treats this connection (None = serves it)
    _c45_ev = None

    @property
    def connected_event(self):
        return self._c45_ev

    @connected_event.setter
    def connected_event(self, ev):
        self._c45_ev = _HandshakeEvent(self)

    def __init__(self, *a, **kw):
        w = RT.world
        self.creator = 'control' if kw.get('is_control_connection') else _creator()
        self.open_phase = w.c45.phase
        self.activity_phase = w.c45.activity_phase()
        self.prev_attempt_end = w.c45.attempt_end.get(w.c45.me())
        self.use_log = []         # [keyspace, phase when the node received USE, phase when its answer was read]
        self.world = w
        act = w.c45.running.get(w.c45.me())
        if act is not None:
            act.conns.append(self)
        VConnection.__init__(self, *a, **kw)     # raises when the server refuses the connection
        self.opened = True

    @classmethod
    def factory(cls, *a, **kw):
        trk = RT.world.c45
        rec = [trk.phase, None, 'failed']
        trk.attempt_log.append(rec)
        try:
            conn = super(C45Conn, cls).factory(*a, **kw)
            rec[2] = 'connected'
            return conn
        finally:
            rec[1] = trk.phase
            trk.attempt_ended()
            act = trk.running.get(trk.me())
            if act is not None and act.handler is not None:
                act.cancelled_at_connect = act.handler._cancelled

    def close(self):
        # also when it is closed already: the caller is giving this connection up now
        self.world.c45.attempt_ended()
        VConnection.close(self)

    def feed(self, data):
        if data is EOF:
            # what the shipped reactors do when recv() returns b'' (peer closed the connection)
            self.world.trace('conn.eof', self.vid)
            Connection_close_by_peer(self)
            return
        for u in self.use_log:
            if u[2] is None:
                u[2] = self.world.c45.phase or 'before'
                break
        VConnection.feed(self, data)


class _Eof(bytes):
    pass


EOF = _Eof()      # outbox item: the node closed the connection (FIN) instead of sending a frame


def Connection_close_by_peer(conn):
    if not conn.is_closed:
        VConnection.close(conn)     # not an act of the thread that reads the socket: no attempt_ended()


# how a node can treat a new connection: (kind, k) = the first k requests on it are served, then
#   'refuse'  the TCP connection is refused (k unused)                              -> OSError from the constructor
#   'eof'     the node closes the connection instead of answering request k+1       -> ConnectionShutdown
#   'mute'    request k+1 and everything after it is never answered                 -> OperationTimedOut
#   'error'   request k+1 is answered with a server ERROR (overloaded)              -> ConnectionException (STARTUP) / the error
FAULTS = {'refuse': ('refuse', 0), 'eof0': ('eof', 0), 'eof2': ('eof', 2), 'err1': ('error', 1), 'mute0': ('mute', 0), 'err4': ('error', 4)}


def conn_name(c):
    return 'c%d(%s %s opened:%s handshake:%s%s)' % (c.vid, c.creator, c.endpoint.address, c.open_phase or 'before',
                                                    c.handshake_phase, ' REFUSED' if not c.opened else ' CLOSED' if c.is_closed else ' OPEN')


class C45World(object):
    """params: hosts, protocol_version, orphaned_threshold, reconnect_attempts, request_timeout, future_order,
    legacy_pool=(core, max, max_requests_per_connection), keyspace (of the session),
    reconnect_delay (seconds between reconnection attempts, ConstantReconnectionPolicy; default 2.0; 0 = the next attempt is
    due at once),
    degraded={host index: fault name} (how that node treats every NEW connection from the end of the set-up on)"""

    def __init__(self, params, connect=True, manual=True):
        self.p = p = dict(params)
        n = p.get('hosts', 2)
        self.srv = VServer([HostSpec('10.0.0.%d' % (i + 1)) for i in range(n)])
        self.w = World(self.srv, trace=p.get('trace', False))
        self.w.c45 = self.trk = Tracker()
        self.w.c45_futseq = itertools.count(1)
        self.w.c45_future_order = p.get('future_order', 1)     # +1: sets iterate oldest future first, -1: newest first
        self.faults = []          # rules [host address or None, connections left or None, (kind, k)]
        self.held_texts = set()   # texts of application statements that are not plain SELECTs and are held like them
        self._install_server_faults()
        self._install_world_hooks()
        self._saved_future = _BaseFuture
        vworld.VFuture = DetFuture
        self._saved_threshold = C45Conn.orphaned_threshold
        self.w.__enter__()
        try:
            C45Conn.orphaned_threshold = p.get('orphaned_threshold', self._saved_threshold)
            self.lbp = RotatingPolicy()
            prof = ExecutionProfile(load_balancing_policy=self.lbp, request_timeout=p.get('request_timeout', 10.0))
            self.cluster = self.w.make_cluster(
                connection_class=C45Conn, execution_profiles={EXEC_PROFILE_DEFAULT: prof},
                reconnection_policy=ConstantReconnectionPolicy(p.get('reconnect_delay', 2.0), max_attempts=p.get('reconnect_attempts', 3)),
                status_event_refresh_window=0, topology_event_refresh_window=0,
                protocol_version=p.get('protocol_version', 4))
            self._watch_scheduler()
            if p.get('legacy_pool'):
                # protocol v1/v2: HostConnectionPool with core..max connections per host, grown on demand
                from cassandra.policies import HostDistance
                core, mx, max_req = p['legacy_pool']
                self.cluster.set_min_requests_per_connection(HostDistance.LOCAL, 0)
                self.cluster.set_max_requests_per_connection(HostDistance.LOCAL, max_req)
                self.cluster.set_core_connections_per_host(HostDistance.LOCAL, core)
                self.cluster.set_max_connections_per_host(HostDistance.LOCAL, mx)
            self.session = None
            self.futures = []
            self.after = []           # futures of requests issued after the shutdown
            self.n_exec = 0
            self.exec_errors = []
            if connect:
                self.session = self.cluster.connect(p.get('keyspace'), wait_for_all_pools=True)
                self.w.settle()
                self.srv.hold = self._hold
                self.w.manual = manual
            for h, name in sorted((p.get('degraded') or {}).items()):
                self.faults.append([self.srv.hosts[int(h)].address, None, FAULTS[name]])
        except BaseException:
            self.close()
            raise

    def _hold(self, conn, req):
        """Application requests are held for the explorer; handshakes, REGISTER, system-table reads and
        the USE statements the pools send on their own are answered by the auto server."""
        if req['op'] != 'QUERY':
            return False
        q = req.get('query', '')
        if q in self.held_texts:
            return True
        return not (' system.' in q or q.strip().upper().startswith('USE '))

    # ------------------------------------------------------------------ world hooks / node faults
    def _install_world_hooks(self):
        """Every executor task is an activity of its own (also the ones the world runs by itself while a wait
        pumps or executor.shutdown(wait=True) drains the queue); the drain is a shutdown phase."""
        w, trk = self.w, self.trk
        run_task, drain_executor = w.run_task, w.drain_executor

        def tracked_run_task(index=0):
            me = trk.me()
            outer = trk.activity.get(me, Tracker)
            outer_act = trk.running.get(me)
            trk.activity[me] = trk.phase
            trk.begin_activity()
            act = None
            if index < len(w.tasks) and not w.tasks[index][0].cancelled():
                act = trk.running[me] = Activity(w.tasks[index][4], w.tasks[index][1], w.tasks[index][0])
                if act.handler is not None:
                    trk.handler_runs.append(act)
            try:
                return run_task(index)
            finally:
                trk.begin_activity()
                if act is not None and act.handler is not None:
                    act.cancelled_at_end = act.handler._cancelled
                if outer_act is None:
                    trk.running.pop(me, None)
                else:
                    trk.running[me] = outer_act
                if outer is Tracker:
                    trk.activity.pop(me, None)
                else:
                    trk.activity[me] = outer

        def tracked_drain(ex):
            trk.draining()
            return drain_executor(ex)
        w.run_task, w.drain_executor = tracked_run_task, tracked_drain

    def _watch_scheduler(self):
        """The moment from which Cluster.shutdown() has stopped the scheduler: nothing may be asked of it any more."""
        sch, trk = self.cluster.scheduler, self.trk
        stop = sch.shutdown

        def tracked_stop():
            try:
                return stop()
            finally:
                trk.sched_stopped = True
        sch.shutdown = tracked_stop

    def _install_server_faults(self):
        srv = self.srv
        on_connect, answer = srv.on_connect, srv.answer

        def faulty_on_connect(conn):
            on_connect(conn)                  # a dead node refuses anyway
            for rule in self.faults:
                if (rule[0] is None or rule[0] == conn.endpoint.address) and rule[1] != 0:
                    if rule[1] is not None:
                        rule[1] -= 1
                    conn.fault = rule[2]
                    break
            if conn.fault is not None and conn.fault[0] == 'refuse':
                conn.world.trace('conn.refused', conn.vid)
                raise OSError(111, 'Tried connecting to [(%r, 9042)]. Last error: Connection refused' % (conn.endpoint.address,))

        def faulty_answer(p, deliver=False):
            conn = p.conn
            st = conn.server_state
            q = p.req.get('query', '') if p.req['op'] == 'QUERY' else ''
            if q.strip().upper().startswith('USE '):
                conn.use_log.append([q.strip()[4:].strip().strip('"'), self.trk.phase or 'before', None])
            fault = getattr(conn, 'fault', None)
            if fault is not None:
                n = st['c45_served'] = st.get('c45_served', 0) + 1
                if n > fault[1]:
                    kind = fault[0]
                    if p in srv.pending:
                        srv.pending.remove(p)
                    if kind == 'eof':
                        if n == fault[1] + 1:
                            srv.outbox.append((conn, EOF))
                            if deliver:
                                self.w.deliver_outbox()
                        return
                    if kind == 'mute':
                        return
                    if kind == 'error' and n == fault[1] + 1:
                        srv.respond(p, wire.OP_ERROR, wire.error(wire.ERR_OVERLOADED, 'node is overloaded'), deliver=deliver)
                        return
            answer(p, deliver=deliver)
        srv.on_connect, srv.answer = faulty_on_connect, faulty_answer

    def fail_next_connection(self, name):
        """The first connection attempt made from now on (to any node) is treated as FAULTS[name]."""
        self.faults.insert(0, [None, 1, FAULTS[name]])

    def close(self):
        C45Conn.orphaned_threshold = self._saved_threshold
        vworld.VFuture = self._saved_future
        self.w.__exit__()

    # ------------------------------------------------------------------ environment / client events
    def pending(self):
        return sorted(self.srv.pending, key=lambda p: p.seq)

    def execute(self):
        self.n_exec += 1
        late = self.trk.kind is not None       # issued after a shutdown: must be refused (judge)
        try:
            f = self.session.execute_async(SimpleStatement('SELECT q%d' % self.n_exec))
        except Exception as e:
            self.exec_errors.append(e)
            return None
        (self.after if late else self.futures).append(f)
        return f

    def use_keyspace(self, ks):
        """The application sends USE <ks> through the session; the node's answer is held like the answer to any
        other application request (the session keyspace changes when the answer is read)."""
        text = 'USE %s' % ks
        self.held_texts.add(text)
        self.futures.append(self.session.execute_async(text))

    def held_use(self):
        return [p for p in self.pending() if p.req.get('query', '') in self.held_texts]

    def release_use(self):
        """The node answers the application's USE: the answer is on its way (read by the reactor in its turn)."""
        for p in self.held_use()[:1]:
            self.srv.answer(p, deliver=False)

    def respond(self, i):
        p = self.pending()[i]
        self.srv.respond(p, wire.OP_RESULT, wire.result_rows([('v', wire.T_INT)], [[1]], p.req['version']), deliver=True)

    def kill_host(self, h):
        """The node dies: it refuses connections and every established connection is reset."""
        hs = self.srv.hosts[h]
        hs.up = False
        for c in list(self.w.conns):
            if c.endpoint.address == hs.address and c.opened and not c.is_closed:
                self.srv.pending[:] = [q for q in self.srv.pending if q.conn is not c]
                c.defunct(OSError(104, 'Connection reset by peer'))

    def revive_host(self, h):
        self.srv.hosts[h].up = True

    def control(self):
        c = self.cluster.control_connection._connection
        return c if c is not None and not c.is_closed else None

    def push_status(self, kind, h):
        self.srv.push_event(self.control(), wire.event_status(kind, self.srv.hosts[h].address))

    def add_node(self):
        """A third node joins: the server starts listing it and pushes NEW_NODE."""
        hs = HostSpec('10.0.0.%d' % (len(self.srv.hosts) + 1))
        self.srv.hosts.append(hs)
        self.srv.push_event(self.control(), wire.event_topology('NEW_NODE', hs.address))

    def run_task(self, i=0):
        """Run the i-th queued executor task (the world hook remembers in which shutdown phase it was started)."""
        self.w.run_task(i)

    def apply(self, ev):
        """One explorer event (plain data) applied to this world."""
        k = ev[0]
        self.trk.begin_activity()
        if k == 'task':
            self.run_task(ev[1])
        elif k == 'sched':
            self.fire_next_sched()
        elif k == 'timer':
            self.w.fire_timer(self.w.live_timers()[0])
        elif k == 'respond':
            self.respond(ev[1])
        elif k == 'exec':
            self.execute()
        elif k == 'kill':
            self.kill_host(ev[1])
        elif k == 'revive':
            self.revive_host(ev[1])
        elif k == 'push':
            self.push_status(ev[1], ev[2])
        elif k == 'addnode':
            self.add_node()
        elif k == 'shutdown':
            self.shutdown(ev[1])
        elif k == 'use':
            self.use_keyspace(ev[1])
        elif k == 'advance':
            self.advance(ev[1])
        else:
            raise ValueError(ev)
        self.w.deliver_outbox()

    def advance(self, goal, max_steps=200):
        """Goal-directed prefix step: the default continuation (answers delivered, queued tasks FIFO, then scheduler entries in
        deadline order; held application requests stay held) runs until `goal` holds.  Independent of HOW the driver moves a
        due attempt to the executor (through a scheduler entry or directly)."""
        w, cc = self.w, self.cluster.control_connection

        def head_is(kind):
            if not w.tasks or not w.tasks[0][4].endswith('ReconnectionHandler.run'):
                return False
            h = getattr(w.tasks[0][1], '__self__', None)
            return (hasattr(h, 'control_connection')) == (kind == 'control')
        goals = {'control-handler-armed': lambda: cc._reconnection_handler is not None and not cc._reconnection_handler._cancelled,
                 'control-attempt-queued': lambda: head_is('control'),
                 'host-attempt-queued': lambda: head_is('host')}
        cond = goals[goal]
        for _ in range(max_steps):
            if cond():
                return
            if self.srv.outbox:
                w.deliver_outbox()
            elif w.tasks:
                self.run_task(0)
            elif w.sched_tasks:
                self.fire_next_sched()
            else:
                break
        raise HarnessError('C45 prefix: goal %r not reached' % (goal,))

    def fire_next_sched(self):
        if not self.w.sched_tasks:
            # a fixed prefix says 'the scheduler moves the next due entry to the executor' and there is none: the driver
            # handed the task over by itself (zero-delay schedule); the explorer offers the event only when there is an entry
            return
        e = sorted(self.w.sched_tasks, key=lambda t: (t[0], t[1]))[0]
        self.w.fire_sched(e)

    # ------------------------------------------------------------------ shutdown
    def flags_now(self):
        """What is going on at this moment (recorded when the shutdown is injected)."""
        w, cl, se = self.w, self.cluster, self.session
        labels = [t[4] for t in w.tasks] + [getattr(e[2][0], '__qualname__', '?') for e in w.sched_tasks]
        fl = {}
        fl['request_in_flight'] = any(not f._event.is_set() for f in self.futures)
        fl['reconnection_pending'] = any('ReconnectionHandler.run' in l for l in labels) or any(
            h._reconnection_handler is not None and not h._reconnection_handler._cancelled
            for h in cl.metadata.all_hosts())
        fl['control_reconnect_pending'] = any('ControlConnection._reconnect' in l for l in labels) or \
            cl.control_connection._reconnection_handler is not None
        fl['pool_creation_pending'] = any('run_add_or_renew_pool' in l for l in labels)
        pools = list(se._pools.values()) if se is not None else []
        fl['replacement_pending'] = any(getattr(p, '_is_replacing', False) or getattr(p, '_scheduled_for_creation', 0) for p in pools) or \
            any('_replace' in l or '_create_new_connection' in l for l in labels)
        fl['trashed_connection'] = any(getattr(p, '_trash', None) for p in pools)
        fl['connection_mid_handshake'] = any(c.opened and not c.is_closed and c.handshake_phase == 'never' for c in w.conns)
        # a scheduled reconnection attempt (_ReconnectionHandler.run moved to the executor by the scheduler) is running right now
        for act in self.trk.running.values():
            if act.handler is not None and act.stage() is not None:
                fl['scheduled_%s_reconnection_attempt_%s' % (act.kind, act.stage())] = True
        fl['tasks_queued'] = bool(w.tasks)
        fl['scheduled_entries'] = bool(w.sched_tasks)
        return fl

    def shutdown(self, kind):
        """The client calls Cluster.shutdown() / Session.shutdown() (to completion)."""
        trk = self.trk
        if trk.kind is None:
            trk.kind = kind
            trk.at_shutdown = self.flags_now()
        sfx = '2' if trk.stage2 else ''
        trk.phase = 'in' + sfx
        try:
            (self.cluster if kind == 'cluster' else self.session).shutdown()
        except Exception as e:     # a shutdown that raises is reported by judge()
            trk.shutdown_exc = e
        trk.phase = 'returned' + sfx

    # ------------------------------------------------------------------ drain (default continuation)
    def drain(self, max_sched=8, max_steps=2000):
        """Everything that is still going to happen, in the default order: answers are delivered,
        held requests answered, queued tasks run FIFO, scheduler entries fire in deadline order."""
        w, srv = self.w, self.srv
        srv.hold = lambda conn, req: False
        fired = 0
        for _ in range(max_steps):
            if srv.outbox:
                w.deliver_outbox()
            elif srv.pending:
                srv.answer(self.pending()[0], deliver=True)
            elif w.tasks:
                self.run_task(0)
            elif w.thread_tasks:
                w.run_thread_task(0)
            elif w.sched_tasks and fired < max_sched:
                self.fire_next_sched()
                fired += 1
            else:
                return
        raise HarnessError('C45 drain does not terminate')

    def fire_all_timers(self, limit=50):
        for _ in range(limit):
            live = self.w.live_timers()
            if not live:
                return
            self.w.fire_timer(live[0])
            self.drain()

    # ------------------------------------------------------------------ oracle
    def open_conns(self, kinds=None):
        return [c for c in self.w.conns if c.opened and not c.is_closed and (kinds is None or c.creator in kinds)]

    def where_referenced(self, c):
        """-> (class of holder for the fingerprint, description)"""
        cl, se = self.cluster, self.session
        if cl.control_connection._connection is c:
            return 'installed-as-control-connection', 'ControlConnection._connection (control connection shut down: %s)' % cl.control_connection._is_shutdown
        for s in ([se] if se is not None else []) + [x for x in cl.sessions if x is not se]:
            for host, pool in list(s._pools.items()):
                if getattr(pool, '_connection', None) is c or c in getattr(pool, '_connections', ()):
                    d = '%s pool._connection (pool.is_shutdown=%s, session.is_shutdown=%s, cluster.is_shutdown=%s)' % (
                        host, pool.is_shutdown, s.is_shutdown, cl.is_shutdown)
                    if pool.is_shutdown:
                        return 'held-by-shut-down-pool', d
                    if s.is_shutdown:
                        return 'held-by-live-pool-of-shut-down-session', d
                    return 'held-by-live-session-of-shut-down-cluster', d
                if c in (getattr(pool, '_trash', None) or ()):
                    return 'in-pool-trash', '%s pool._trash' % host
        return 'dropped-unclosed', 'referenced by no pool, trash set or control connection'

    def probe_request(self):
        """-> ('raised'|'error'|'accepted'|'pending', detail) for a request issued now"""
        try:
            f = self.session.execute_async(SimpleStatement('SELECT probe'))
        except Exception as e:
            return 'raised', type(e).__name__
        self.drain()
        if f._event.is_set():
            if f._final_exception is not None:
                return 'error', type(f._final_exception).__name__
            return 'accepted', 'completed with a result'
        detail = 'not completed after every answer was delivered and every task ran (timers left: %d)' % len(self.w.live_timers())
        self.fire_all_timers()
        return 'pending', detail + ('; only the client timeout ended it' if f._event.is_set() else '; never completes')

    def judge(self, part, data, layer):
        """Destructive: drains the world and probes it.  Called in a state where a shutdown call
        has returned."""
        trk = self.trk
        kind = trk.kind
        if trk.shutdown_exc is not None:
            part.violation('C45/%s/shutdown-raised/%s' % (kind, type(trk.shutdown_exc).__name__),
                           '%s.shutdown() raised %r' % (kind, trk.shutdown_exc), data)
        self.drain()
        self._judge_connections(part, data, kind)
        # new requests are refused: the ones the history issued behind the shutdown ...
        for f in self.after:
            if not f._event.is_set():
                part.violation('C45/%s/new-request-left-pending' % kind,
                               'execute_async() after %s.shutdown() returned a future that is not completed after every answer '
                               'was delivered and every task ran' % kind, data)
            elif f._final_exception is None:
                part.violation('C45/%s/new-request-accepted' % kind,
                               'execute_async() after %s.shutdown() returned was sent and completed with a result; open connections: %s' % (
                                   kind, ', '.join(conn_name(c) for c in self.open_conns())), data)
            else:
                part.outcome(('new-request-in-history', kind, 'error', type(f._final_exception).__name__))
        # ... and one issued now
        if self.session is not None:
            res, detail = self.probe_request()
            part.outcome(('new-request', kind, res, detail if res != 'pending' else ''))
            if res == 'accepted':
                part.violation('C45/%s/new-request-accepted' % kind,
                               'execute_async() after %s.shutdown() returned was sent and %s; open connections: %s' % (
                                   kind, detail, ', '.join(conn_name(c) for c in self.open_conns())), data)
            elif res == 'pending':
                part.violation('C45/%s/new-request-left-pending' % kind,
                               'execute_async() after %s.shutdown() returned a future that %s' % (kind, detail), data)
        if kind == 'cluster':
            self._probe_connect(part, data, kind)
        else:
            # the owner of the session's executor goes away too: now nothing at all may stay open
            trk.stage2 = True
            self.shutdown('cluster')
            self.drain()
            self._judge_connections(part, data, 'session-then-cluster')
            self._probe_connect(part, data, 'session-then-cluster')
        for f in self.futures:
            part.outcome(('request-in-flight-at-shutdown', 'completed' if f._event.is_set() else 'incomplete-before-timeout'))

    def _probe_connect(self, part, data, kind):
        try:
            s2 = self.cluster.connect()
        except DriverException:
            part.outcome(('connect-after-shutdown', 'DriverException'))
        except Exception as e:
            part.outcome(('connect-after-shutdown', type(e).__name__))
        else:
            part.violation('C45/%s/connect-accepted' % kind, 'Cluster.connect() after shutdown returned %r' % (s2,), data)

    def _judge_connections(self, part, data, kind):
        w, trk = self.w, self.trk
        if kind == 'session':
            mine = POOL_KINDS            # what the session opened; control / probe connections are the cluster's
        else:
            mine = None
        for c in self.open_conns(mine):
            how, desc = self.where_referenced(c)
            part.violation('C45/%s/connection-left-open/%s/%s' % (kind, c.creator, how),
                           'after %s shutdown and drain %s is still open: %s; all: %s' % (
                               kind, conn_name(c), desc, ' '.join(conn_name(x) for x in w.conns if x.opened)), data)
        after = {'cluster': ('returned',), 'session': ('returned', 'in2', 'draining2', 'returned2'), 'session-then-cluster': ('returned2',)}[kind]
        # a task that was already running when the shutdown was called may still open its connection (it
        # must then close it: clause above); an activity STARTED after the call returned must not open any
        for c in w.conns:
            if c.activity_phase in after and (mine is None or c.creator in mine):
                part.violation('C45/%s/connection-opened-after-shutdown/%s' % (kind, c.creator),
                               'a connection was opened by an activity that started after %s.shutdown() had returned: %s' % (
                                   trk.kind, conn_name(c)), data)
        # ... and an activity that was under way may finish the attempt it is in, but once an attempt of it has ended
        # (failed, timed out, given up) at a moment when the shutdown had done all its work (Cluster.shutdown() only waiting
        # for the executor, or returned), it must not start another one (next host of a plan, retry)
        done = {'cluster': ('draining', 'returned'), 'session': ('returned', 'in2', 'draining2', 'returned2'),
                'session-then-cluster': ('draining2', 'returned2')}[kind]
        for c in w.conns:
            if c.prev_attempt_end in done and c.activity_phase not in after and (mine is None or c.creator in mine):
                part.violation('C45/%s/new-attempt-after-shutdown/%s' % (kind, c.creator),
                               'a new connection attempt was started although the previous attempt of the same activity had ended '
                               'when %s.shutdown() had already %s: %s; all: %s' % (
                                   trk.kind, 'returned' if c.prev_attempt_end.startswith('returned') else
                                   'done all its work and was only waiting for the executor', conn_name(c),
                                   ' '.join(conn_name(x) for x in w.conns if x.open_phase is not None)), data)
        if kind != 'session':
            # a reconnection attempt (_ReconnectionHandler.run) that was asked for -- handed to the executor -- after
            # Cluster.shutdown() had stopped the scheduler and that went as far as a connection attempt
            for act in trk.handler_runs:
                if act.requested_after_stop and act.conns:
                    part.violation('C45/%s/reconnection-attempt-started-after-shutdown/%s' % (kind, act.kind),
                                   'a %s reconnection attempt (_ReconnectionHandler.run) was handed to the executor after Cluster.shutdown() '
                                   'had stopped the scheduler, ran and made a connection attempt: %s; all: %s' % (
                                       act.kind, ' '.join(conn_name(c) for c in act.conns),
                                       ' '.join(conn_name(x) for x in w.conns if x.open_phase is not None)), data)
            left = [t[4] for t in w.tasks]
            if left:
                part.violation('C45/%s/tasks-left' % kind, 'executor tasks still queued after shutdown: %r' % (left,), data)


# ====================================================================== engine S support
def nested_code(func, name):
    """code object of the function `name` defined inside `func`"""
    for c in func.__code__.co_consts:
        if hasattr(c, 'co_name') and c.co_name == name:
            return c
    raise HarnessError('no nested function %s in %s' % (name, func))


def focus_codes():
    import cassandra.cluster as cl
    import cassandra.pool as pool
    import cassandra.connection as cn
    fs = [
        cl.Cluster.shutdown, cl.Cluster.connect, cl.Cluster._new_session, cl.Cluster.on_up, cl.Cluster.on_add,
        cl.Cluster._on_up_future_completed, cl.Cluster._finalize_add,
        cl.Session.__init__, cl.Session.shutdown, cl.Session.add_or_renew_pool, cl.Session.submit,
        cl.Session.update_created_pools,
        cl.ControlConnection.connect, cl.ControlConnection._set_new_connection, cl.ControlConnection._reconnect_internal,
        cl.ControlConnection._try_connect, cl.ControlConnection._reconnect, cl.ControlConnection.shutdown,
        cl.ControlConnection._submit, cl.ControlConnection.reconnect,
        cl._ControlReconnectionHandler.try_reconnect, cl._ControlReconnectionHandler.on_reconnection,
        pool.HostConnection.__init__, pool.HostConnection._replace, pool.HostConnection.shutdown,
        pool.HostConnectionPool.__init__, pool.HostConnectionPool._create_new_connection,
        pool.HostConnectionPool._add_conn_if_under_max, pool.HostConnectionPool.shutdown,
        pool._ReconnectionHandler.run, pool._ReconnectionHandler.start, pool._ReconnectionHandler.cancel,
        pool._HostReconnectionHandler.try_reconnect, pool._HostReconnectionHandler.on_reconnection,
    ]
    codes = [f.__code__ for f in fs]
    codes.append(cn.Connection.factory.__func__.__code__)
    codes.append(nested_code(cl.Session.add_or_renew_pool, 'run_add_or_renew_pool'))
    return codes


def run_schedule(st, s, clients, nworkers=1):
    """Run one schedule: `clients` = [(name, fn)] are client threads (and environment actors); `nworkers` executor worker
    threads run the queued tasks; one reactor thread delivers what the server sends.  A janitor
    thread (never enabled before the end) stops workers and reactor at quiescence."""
    w, srv = st.w, st.srv
    busy = [0]
    stop = [False]
    done = []

    def join_executor(ex):
        st.trk.draining()
        s.block(lambda: busy[0] == 0 and not any(t[5] is ex for t in w.tasks), None, 'executor.shutdown(wait=True)')
    w.executor_join = join_executor

    def worker():
        while True:
            if not w.tasks:
                s.block(lambda: bool(w.tasks) or stop[0], None, 'worker idle')
            if not w.tasks:
                return
            busy[0] += 1
            try:
                st.run_task(0)
            finally:
                busy[0] -= 1
            s.point('task.done')

    def reactor():
        s.current.waiting = None
        while True:
            if not srv.outbox:
                s.block(lambda: bool(srv.outbox) or stop[0], None, 'reactor idle')
            if srv.outbox:
                w.deliver_outbox(1)
            elif stop[0]:
                return

    def client(name, fn):
        def body():
            try:
                fn()
            finally:
                done.append(name)
        return body

    def janitor():
        s.current.waiting = None
        s.block(lambda: len(done) == len(clients) and busy[0] == 0 and not w.tasks and not srv.outbox, None, 'quiescence')
        stop[0] = True

    for name, fn in clients:
        s.spawn(client(name, fn), name)
    for i in range(nworkers):
        s.spawn(worker, 'worker%d' % i)
    # reactor and janitor are born waiting (a thread that has not started counts as enabled otherwise, which
    # would offer it as an alternative at every point although it has nothing to do)
    s.spawn(reactor, 'reactor').waiting = lambda: bool(srv.outbox) or stop[0]
    s.spawn(janitor, 'janitor').waiting = lambda: len(done) == len(clients) and busy[0] == 0 and not w.tasks and not srv.outbox
    try:
        s.run()
    finally:
        w.executor_join = None
