"""Schedule layer of C14 (and of C15's bounded-completion clause): the real ResponseFuture of a real
Session with two attempts outstanding (the speculative execution already sent), completed
concurrently by two reactor threads (one per connection), the timer thread (client timeout) and an
executor worker (retries), while a client thread attaches a second callback pair and waits on
result().  Scheduling points: every virtual primitive and every source line of the completion /
callback / timeout methods of ResponseFuture.
"""
from vt import sched
from vt.reqworld import ReqWorld, Observer

from cassandra.cluster import ResponseFuture

FOCUS_NAMES = ('_set_result', '_set_final_result', '_set_final_exception', '_on_timeout', '_on_speculative_execute',
               'add_callback', 'add_errback', 'add_callbacks', '_cancel_timer', '_handle_retry_decision', '_retry',
               '_retry_task', 'result', '_handle_continuous_paging_options')
FOCUS = [getattr(ResponseFuture, n).__code__ for n in FOCUS_NAMES if hasattr(ResponseFuture, n)]


@sched.gc_quiet
def harness(params, prefix, part):
    """params: kinds [kindA, kindB] for the two attempts ('rows', 'invalid', 'overloaded'), decision for
    retryable errors, timer (bool: the client timeout fires concurrently), late (bool: a client thread
    attaches a second pair and waits), spec_in_race (bool: the speculative timer itself fires in the race
    instead of during setup)."""
    rw = ReqWorld({'hosts': 3, 'spec': 1, 'spec_delay': 1.0, 'timeout': 10.0})
    try:
        w = rw.w
        f = rw.execute('q0')
        early = rw.observers[0]
        if not params.get('spec_in_race'):
            # the speculative execution goes out: two attempts are pending on two hosts
            w.fire_timer(w.live_timers()[0])
        rw.retry.next = (params.get('decision', 'RETHROW'), None)
        s = sched.Scheduler(prefix, focus=FOCUS, horizon=6000, clock=w.clock)
        out = {'late': None}
        done = {'n': 0}
        kinds = params['kinds']

        def reactor(i):
            def body():
                try:
                    pend = rw.pending()
                    if params.get('spec_in_race') and i == 1:
                        s.block(lambda: len(rw.server.pending) + len([p for p in answered]) >= 2 or f._event.is_set(), None,
                                'second attempt sent')
                        pend = rw.pending()
                        cand = [p for p in pend if p not in answered]
                    else:
                        cand = [p for p in pend if p.conn.endpoint.address == '10.0.0.%d' % (i + 1)]
                    if cand:
                        p = cand[0]
                        answered.append(p)
                        from vt.reqworld import response_body
                        op, body_ = response_body(kinds[i], p.req['version'])
                        rw.server.respond(p, op, body_, deliver=True)
                finally:
                    done['n'] += 1
            return body

        answered = []

        def timer():
            try:
                while True:
                    live = w.live_timers()
                    if not live:
                        break
                    w.fire_timer(live[0])
                    if not params.get('all_timers'):
                        break
            finally:
                done['n'] += 1

        nworkers = 2 + (1 if params.get('timer') else 0)

        def executor():
            # one executor worker: runs queued tasks (retries) while the other threads are alive
            while True:
                s.block(lambda: bool(w.tasks) or done['n'] >= nworkers, None, 'executor idle')
                if w.tasks:
                    w.run_task(0)
                    w.deliver_outbox()
                elif done['n'] >= nworkers:
                    break

        def client():
            o = Observer(f, w, 'late')
            out['late'] = o
            try:
                f.result()
                out['result'] = 'result'
            except sched.Abort:
                raise
            except Exception as e:
                out['result'] = 'error'
                out['exc'] = e

        s.spawn(reactor(0), 'reactorA')
        s.spawn(reactor(1), 'reactorB')
        if params.get('timer'):
            s.spawn(timer, 'timer')
        if 'overloaded' in kinds or params.get('spec_in_race'):
            s.spawn(executor, 'executor')        # retries / speculative sends need an executor worker
        if params.get('late'):
            s.spawn(client, 'client')
        s.run()
        data = {'params': params, 'prefix': s.choices()}
        cls = '+'.join(kinds) + ('/timer' if params.get('timer') else '')
        if s.failure:
            part.violation('C14/sched/%s/%s' % (s.failure[0], cls), s.failure[1], data)
            return s
        for t in s.threads:
            if t.exc is not None:
                part.violation('C14/sched/thread-exception/%s/%s' % (type(t.exc).__name__, t.name),
                               '%r in %s\n%s' % (t.exc, t.name, getattr(t, 'exc_tb', '')), data)
                return s
        obs = [('early', early)] + ([('late', out['late'])] if out['late'] is not None else [])
        for name, o in obs:
            if o.results and o.errors:
                part.violation('C14/sched/both-callback-and-errback/%s' % name, '%s observer saw %r' % (name, o.order), data)
            elif o.n > 1:
                part.violation('C14/sched/completed-twice/%s' % name, '%s observer invoked %d times: %r' % (name, o.n, o.order), data)
        complete = f._event.is_set()
        must = params.get('timer') or all(k in ('rows', 'invalid') for k in kinds) or \
            (params.get('decision', 'RETHROW') in ('RETHROW', 'IGNORE') and any(k in ('rows', 'invalid', 'overloaded') for k in kinds))
        if must and not complete:
            part.violation('C14/sched/no-outcome/%s' % cls, 'all attempts answered%s but the future is incomplete'
                           % (' and the timeout fired' if params.get('timer') else ''), data)
        if complete:
            for name, o in obs:
                if o.n == 0:
                    part.violation('C14/sched/callback-lost/%s' % name, 'future complete but the %s pair never ran' % name, data)
            kinds_seen = set('result' if o.results else 'error' for _, o in obs if o.n)
            if 'result' in out:
                kinds_seen.add(out['result'])
            if len(kinds_seen) > 1:
                part.violation('C14/sched/observers-disagree', 'observers / result() saw different outcomes: %r' % (
                    [(n, o.order) for n, o in obs] + [out.get('result')],), data)
            if 'exc' in out and early.errors and out['exc'] is not early.errors[0]:
                part.violation('C14/sched/result()-different-error', 'errback saw %r, result() raised %r' % (early.errors[0], out['exc']), data)
        part.outcome((cls, 'done' if complete else 'open', 'result' if early.results else ('error:' + type(early.errors[0]).__name__ if early.errors else '-')))
        if any(p.chosen for p in s.trace):
            part.mark_nontrivial(repr((params, s.choices())))
        part.sample({'params': params, 'choices': s.choices(), 'early': early.order and early.order[0][0]}, limit=1)
        return s
    finally:
        rw.close()


def configs(thorough):
    out = []
    kinds = ['rows', 'invalid', 'overloaded']
    for a in kinds:
        for b in kinds:
            for timer in (False, True):
                decs = ['RETHROW', 'RETRY_NEXT_HOST'] if 'overloaded' in (a, b) else ['RETHROW']
                for d in decs:
                    for late in ((False, True) if thorough else (True,)):
                        out.append({'kinds': [a, b], 'timer': timer, 'decision': d, 'late': late})
    out.append({'kinds': ['rows', 'rows'], 'timer': True, 'decision': 'RETHROW', 'late': True, 'spec_in_race': True, 'all_timers': True})
    out.append({'kinds': ['overloaded', 'rows'], 'timer': True, 'decision': 'RETRY_NEXT_HOST', 'late': True, 'spec_in_race': True, 'all_timers': True})
    return out
