"""Request-path world shared by the ResponseFuture checks (C14-C19 and others).

A real Cluster/Session over the virtual server with: a fixed-order load-balancing policy, a
scripted retry policy (the decision for the next error is set by the harness), optional constant
speculative execution, and a server that *holds* every application request so the explorer
chooses when and how each one is answered.
"""
from vt.world.vworld import World, VServer, HostSpec, VConnection   # noqa: F401  (imports the driver)
from vt.world import wire

from cassandra import ConsistencyLevel
from cassandra.cluster import ExecutionProfile, EXEC_PROFILE_DEFAULT
from cassandra.policies import (LoadBalancingPolicy, RetryPolicy, HostDistance,
                                ConstantSpeculativeExecutionPolicy)
from cassandra.query import SimpleStatement


class FixedOrderPolicy(LoadBalancingPolicy):
    """Plan = the live hosts in address order (or in the scripted order), all LOCAL."""
    def __init__(self, order=None, ignored=()):
        self._live = []
        self.order = order           # list of addresses or None
        self.ignored = set(ignored)

    def populate(self, cluster, hosts):
        self._live = list(hosts)

    def distance(self, host):
        return HostDistance.IGNORED if host.endpoint.address in self.ignored else HostDistance.LOCAL

    def make_query_plan(self, working_keyspace=None, query=None):
        hosts = sorted(self._live, key=lambda h: h.endpoint.address)
        if self.order is not None:
            by = dict((h.endpoint.address, h) for h in hosts)
            hosts = [by[a] for a in self.order if a in by]
        return [h for h in hosts if h.endpoint.address not in self.ignored]

    def on_up(self, host):
        if host not in self._live:
            self._live.append(host)

    def on_down(self, host):
        if host in self._live:
            self._live.remove(host)

    on_add = on_up
    on_remove = on_down


DECISIONS = {
    'RETRY': RetryPolicy.RETRY, 'RETRY_NEXT_HOST': RetryPolicy.RETRY_NEXT_HOST,
    'RETHROW': RetryPolicy.RETHROW, 'IGNORE': RetryPolicy.IGNORE,
}


class ScriptedRetryPolicy(RetryPolicy):
    def __init__(self):
        self.calls = []              # (hook, retry_num, consistency)
        self.next = ('RETHROW', None)

    def _decide(self, hook, retry_num, consistency):
        self.calls.append((hook, retry_num, consistency))
        d, cl = self.next
        return DECISIONS[d], cl

    def on_read_timeout(self, query, consistency, required_responses, received_responses, data_retrieved, retry_num):
        return self._decide('read_timeout', retry_num, consistency)

    def on_write_timeout(self, query, consistency, write_type, required_responses, received_responses, retry_num):
        return self._decide('write_timeout', retry_num, consistency)

    def on_unavailable(self, query, consistency, required_replicas, alive_replicas, retry_num):
        return self._decide('unavailable', retry_num, consistency)

    def on_request_error(self, query, consistency, error, retry_num):
        return self._decide('request_error', retry_num, consistency)


ROWS_COLS = [('v', wire.T_INT)]


def response_body(kind, v=4, **kw):
    """(opcode, body) for a symbolic response kind."""
    if kind == 'rows':
        return wire.OP_RESULT, wire.result_rows(ROWS_COLS, kw.get('rows', [[1]]), v, paging_state=kw.get('paging_state'))
    if kind == 'void':
        return wire.OP_RESULT, wire.result_void()
    if kind == 'set_keyspace':
        return wire.OP_RESULT, wire.result_set_keyspace(kw.get('keyspace', 'ks2'))
    if kind == 'read_timeout':
        return wire.OP_ERROR, wire.error(wire.ERR_READ_TIMEOUT, 'rt', cl=kw.get('cl', 1), received=1, blockfor=2, data_present=False)
    if kind == 'write_timeout':
        return wire.OP_ERROR, wire.error(wire.ERR_WRITE_TIMEOUT, 'wt', cl=kw.get('cl', 1), received=1, blockfor=2, write_type='SIMPLE')
    if kind == 'unavailable':
        return wire.OP_ERROR, wire.error(wire.ERR_UNAVAILABLE, 'ua', cl=kw.get('cl', 1), required=2, alive=1)
    if kind == 'overloaded':
        return wire.OP_ERROR, wire.error(wire.ERR_OVERLOADED, 'ov')
    if kind == 'bootstrapping':
        return wire.OP_ERROR, wire.error(wire.ERR_BOOTSTRAPPING, 'bs')
    if kind == 'server_error':
        return wire.OP_ERROR, wire.error(wire.ERR_SERVER, 'se')
    if kind == 'truncate':
        return wire.OP_ERROR, wire.error(wire.ERR_TRUNCATE, 'tr')
    if kind == 'invalid':
        return wire.OP_ERROR, wire.error(wire.ERR_INVALID, 'inv')
    if kind == 'syntax':
        return wire.OP_ERROR, wire.error(wire.ERR_SYNTAX, 'syn')
    if kind == 'unprepared':
        return wire.OP_ERROR, wire.error(wire.ERR_UNPREPARED, 'unp', query_id=kw['query_id'])
    raise ValueError(kind)


RETRYABLE = ('read_timeout', 'write_timeout', 'unavailable', 'overloaded', 'bootstrapping', 'server_error', 'truncate')


class Observer(object):
    """Callbacks attached to one ResponseFuture."""
    def __init__(self, future, world, label='cb'):
        self.results, self.errors = [], []
        self.order = []
        self.world = world
        self.generation = 0
        self.history = []            # (results, errors) of earlier generations (pages)
        future.add_callbacks(self._cb, self._eb)

    def new_generation(self):
        self.history.append((self.results, self.errors, self.order))
        self.results, self.errors, self.order = [], [], []
        self.generation += 1

    def _cb(self, rows):
        self.results.append(rows)
        self.order.append(('result', self.world.clock.now))

    def _eb(self, exc):
        self.errors.append(exc)
        self.order.append(('error', self.world.clock.now))

    @property
    def n(self):
        return len(self.results) + len(self.errors)


class ReqWorld(object):
    """params: hosts (int), spec (n speculative attempts), spec_delay, timeout, protocol_version,
    idempotent, order, cluster_kw, keyspace, hold_use (True: USE statements, the application's and the ones the
    driver sends to propagate a keyspace, are held for the explorer like every other application request)"""

    def __init__(self, params):
        self.p = p = dict(params)
        n = p.get('hosts', 3)
        self.server = VServer([HostSpec('10.0.0.%d' % (i + 1)) for i in range(n)])
        self.w = World(self.server, trace=p.get('trace', False))
        self.w.__enter__()
        try:
            self.retry = ScriptedRetryPolicy()
            self.lbp = FixedOrderPolicy(order=p.get('order'), ignored=p.get('ignored', ()))
            prof = dict(load_balancing_policy=self.lbp, retry_policy=self.retry,
                        request_timeout=p.get('timeout', 10.0))
            if p.get('spec', 0):
                prof['speculative_execution_policy'] = ConstantSpeculativeExecutionPolicy(p.get('spec_delay', 1.0), p['spec'])
            kw = dict(execution_profiles={EXEC_PROFILE_DEFAULT: ExecutionProfile(**prof)},
                      protocol_version=p.get('protocol_version', 4))
            kw.update(p.get('cluster_kw', {}))
            self.cluster = self.w.make_cluster(**kw)
            self.session = self.cluster.connect(p.get('keyspace'), wait_for_all_pools=True)
            self.w.settle()
            if p.get('id0'):
                # the state every connection is in after ~300 requests: stream id 0 is the next one handed out
                self.place_id0(p.get('id0_offset', 0))
            # from now on the explorer owns every application request and every task
            self.setup_conns = len(self.w.conns)
            self.server.hold = self._hold_with_use if p.get('hold_use') else self._hold
            self.w.manual = True
            self.handshake_received = len(self.server.received)
            self.futures = []
            self.observers = []
        except BaseException:
            self.w.__exit__()
            raise

    @staticmethod
    def _hold(conn, req):
        """Application requests are held for the explorer; handshakes of replacement connections,
        USE on new connections and system-table reads are answered by the auto server."""
        if req['op'] not in ('QUERY', 'PREPARE', 'EXECUTE', 'BATCH'):
            return False
        q = req.get('query', '')
        if req['op'] == 'QUERY' and (' system.' in q or q.strip().upper().startswith('USE ')):
            return False
        return True

    def _hold_with_use(self, conn, req):
        # USE on a connection opened later (a replacement selecting the pool's keyspace with a blocking call
        # inside an executor task) is still answered by the auto server
        if req['op'] == 'QUERY' and req.get('query', '').strip().upper().startswith('USE ') and conn.vid < self.setup_conns:
            return True
        return self._hold(conn, req)

    def close(self):
        self.w.__exit__()

    def place_id0(self, offset=0):
        """Put every connection's free stream ids in the order they have after a full cycle of the id queue,
        with stream id 0 handed out to the (offset+1)-th request sent on the connection from now on."""
        for c in self.w.conns:
            if c.request_ids and 0 in c.request_ids and len(c.request_ids) > offset:
                c.request_ids.rotate(offset - list(c.request_ids).index(0))

    # -- client operations
    def execute(self, tag, idempotent=None, timeout='default', **kw):
        """kw: stmt_kw (SimpleStatement keywords), query (statement text instead of 'SELECT <tag>'), statement (a ready
        Statement object, e.g. a BoundStatement), anything else goes to Session.execute_async"""
        stmt = kw.pop('statement', None)
        query = kw.pop('query', None)
        stmt_kw = kw.pop('stmt_kw', {})
        if stmt is None:
            stmt = SimpleStatement(query if query is not None else 'SELECT %s' % tag,
                                   is_idempotent=self.p.get('idempotent', True) if idempotent is None else idempotent,
                                   **stmt_kw)
        if timeout == 'default':
            f = self.session.execute_async(stmt, **kw)
        else:
            f = self.session.execute_async(stmt, timeout=timeout, **kw)
        f._vtag = tag
        self.futures.append(f)
        self.observers.append(Observer(f, self.w))
        return f

    # -- server side
    def pending(self):
        return sorted(self.server.pending, key=lambda p: p.seq)

    def respond(self, idx, kind, **kw):
        p = self.pending()[idx]
        op, body = response_body(kind, p.req['version'], **kw)
        self.server.respond(p, op, body, deliver=True)
        return p

    def host_of_pending(self, p):
        return p.conn.endpoint.address

    def sent_app_requests(self):
        """(address, req) for every application request received after setup"""
        out = []
        conns = self.w.conns
        for vid, stream, req in self.server.received[self.handshake_received:]:
            out.append((conns[vid].endpoint.address, req))
        return out

    # -- canonical pieces
    def conn_canon(self):
        out = []
        for c in self.w.conns:
            out.append((c.vid, c.in_flight, tuple(sorted(c.orphaned_request_ids)), c.is_closed, c.is_defunct,
                        tuple(sorted(c._requests.keys())), c.orphaned_threshold_reached))
        return tuple(out)

    def timers_canon(self):
        now = self.w.clock.now
        out = []
        for t in self.w.live_timers():
            cb = t.callback
            name = getattr(cb, '__name__', None) or getattr(getattr(cb, 'func', None), '__name__', 'cb')
            out.append((name, round(t.end - now, 6)))
        return tuple(out)

    def tasks_canon(self):
        return tuple(t[4] for t in self.w.tasks)

    def pending_canon(self):
        return tuple((p.conn.vid, p.stream, p.req.get('op'), p.req.get('query', ''), p.req.get('consistency'))
                     for p in self.pending())
