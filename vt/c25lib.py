"""World for C25: a real Cluster + one (or several) Session(s) + one HostStateListener over the virtual server,
with recording load-balancing policy, and the observation helpers the C25 oracle uses.

Nothing here decides the verdict with driver code: the observers only *read* driver state
(Host.is_up, Host._reconnection_handler, Session._pools, the virtual scheduler/executor queues) and
record the calls the driver makes into the listener / policy.
"""
from vt.world.vworld import World, VServer, HostSpec, VConnection   # noqa: F401  (imports the driver)
from vt.world import wire

from cassandra.cluster import (ExecutionProfile, GraphExecutionProfile, GraphAnalyticsExecutionProfile,
                               EXEC_PROFILE_DEFAULT, EXEC_PROFILE_GRAPH_DEFAULT,
                               EXEC_PROFILE_GRAPH_SYSTEM_DEFAULT, EXEC_PROFILE_GRAPH_ANALYTICS_DEFAULT)
from cassandra.policies import (LoadBalancingPolicy, HostDistance, HostStateListener,
                                ConstantReconnectionPolicy)
from cassandra.pool import _HostReconnectionHandler

from weakref import WeakSet, ref as _ref


class OrderedWeakSet(WeakSet):
    """Cluster.sessions is a WeakSet, whose iteration order is the hash (= address) order of the Session objects,
    i.e. accidental.  This stand-in iterates in insertion order, so that "the first session on_add()/on_up() asks
    for a pool" is the session created first in every rebuilt world (both orders of completion are still enumerated:
    the explorer picks which queued pool creation runs first)."""
    def __init__(self, data=None):
        self._order = []
        WeakSet.__init__(self, data)

    def add(self, item):
        if item not in self:
            self._order.append(_ref(item))
        WeakSet.add(self, item)

    def __iter__(self):
        for r in list(self._order):
            item = r()
            if item is not None and item in self:
                yield item


def addr_of(host):
    return host.endpoint.address


class ObjIds(object):
    """Stable small numbers for Host instances (an address can be re-added as a new instance)."""
    def __init__(self):
        self.objs = []

    def __call__(self, host):
        for i, h in enumerate(self.objs):
            if h is host:
                return i
        self.objs.append(host)
        return len(self.objs) - 1


class RecListener(HostStateListener):
    def __init__(self, log, oid):
        self.log, self.oid = log, oid

    def on_up(self, host):
        self.log.append(('up', addr_of(host), host.is_up, self.oid(host)))

    def on_down(self, host):
        self.log.append(('down', addr_of(host), host.is_up, self.oid(host)))

    def on_add(self, host):
        self.log.append(('add', addr_of(host), host.is_up, self.oid(host)))

    def on_remove(self, host):
        self.log.append(('remove', addr_of(host), host.is_up, self.oid(host)))


class RecPolicy(LoadBalancingPolicy):
    """Round-robin-less policy: plan = live hosts in address order; records every notification."""
    def __init__(self, log, ignored=(), oid=None, ignore_while_down=()):
        self.log = log
        self.oid = oid or (lambda h: None)
        self.ignored = set(ignored)
        # addresses whose distance depends on liveness, the way a remote-DC host's does under
        # DCAwareRoundRobinPolicy(used_hosts_per_remote_dc >= 1): IGNORED while the last thing the policy was told about the host is on_down
        self.ignore_while_down = set(ignore_while_down)
        self._told_down = []       # hosts whose last status notification was on_down
        self._live = []
        self.populated = None

    def populate(self, cluster, hosts):
        self._live = list(hosts)
        self.populated = sorted(addr_of(h) for h in hosts)

    def distance(self, host):
        a = addr_of(host)
        if a in self.ignored or (a in self.ignore_while_down and host in self._told_down):
            return HostDistance.IGNORED
        return HostDistance.LOCAL

    def make_query_plan(self, working_keyspace=None, query=None):
        return [h for h in sorted(self._live, key=addr_of) if addr_of(h) not in self.ignored]

    def on_up(self, host):
        self.log.append(('up', addr_of(host), host.is_up, self.oid(host)))
        if host not in self._live:
            self._live.append(host)
        if host in self._told_down:
            self._told_down.remove(host)

    def on_down(self, host):
        self.log.append(('down', addr_of(host), host.is_up, self.oid(host)))
        if host in self._live:
            self._live.remove(host)
        if host not in self._told_down:
            self._told_down.append(host)

    def on_add(self, host):
        self.log.append(('add', addr_of(host), host.is_up, self.oid(host)))
        if host not in self._live:
            self._live.append(host)
        if host in self._told_down:
            self._told_down.remove(host)

    def on_remove(self, host):
        self.log.append(('remove', addr_of(host), host.is_up, self.oid(host)))
        if host in self._live:
            self._live.remove(host)


class View(object):
    """What an observer that only sees the notifications believes about one address.

    member: True/False.  status: 'up' | 'down' | 'any' ('any' = just added / removed / never told:
    the next status notification may be either).  Anomalies are collected in `dups`:
      up-twice / down-twice      the same status notification again with no opposite one in between
      add-twice                  on_add for an address it already believes present and not down
      remove-twice               on_remove a second time for the same Host instance
      up-after-remove / add-after-remove    a Host instance that was reported removed is reported up / added
    """
    def __init__(self, member, status):
        self.member, self.status = member, status
        self.dups = []
        self.removed = set()
        self.n = 0

    def feed(self, kind, obj=None):
        self.n += 1
        if kind in ('up', 'add') and obj in self.removed:
            self.dups.append('%s-after-remove' % kind)
        if kind == 'up':
            if self.status == 'up':
                self.dups.append('up-twice')
            self.status = 'up'
        elif kind == 'down':
            if self.status == 'down':
                self.dups.append('down-twice')
            self.status = 'down'
        elif kind == 'add':
            # on_add for a known member is a duplicate, except as the "up again" notification of a host whose
            # addition had failed (it was reported down, and the reconnector of a host addition re-runs on_add)
            if self.member and self.status != 'down':
                self.dups.append('add-twice')
            self.member = True
            if self.status != 'up':
                # on_add carries the host's first "is up" (or, for an ignored host, "unknown")
                self.status = 'any'
        elif kind == 'remove':
            # a host may be removed before its addition was announced (on_add waits for the pools), so
            # on_remove for an address believed absent is tolerated; the same instance twice is not
            if obj in self.removed:
                self.dups.append('remove-twice')
            self.removed.add(obj)
            self.member = False
            self.status = 'any'


def views(log, initial, all_addrs):
    """initial: {addr: is_up at registration} for the hosts that were members then"""
    vs = {}
    for a in all_addrs:
        vs[a] = View(a in initial, 'up' if initial.get(a) is True else 'any')
    for kind, a, _, obj in log:
        if a not in vs:
            vs[a] = View(False, 'any')
        vs[a].feed(kind, obj)
    return vs


class HostWorld(object):
    """params:
        hosts     number of hosts the server has (10.0.0.1 .. n); 10.0.0.1 is the contact point and
                  carries the control connection, it is never a target of events
        initial_gone  addresses not in the peers table at start (so they can be added later)
        ignored   addresses the policy reports IGNORED
        ignore_while_down  addresses the policy reports IGNORED while it believes them down (LOCAL once told on_up/on_add)
        delay     reconnection delay (ConstantReconnectionPolicy)
        listener_before_connect  register the listener before connect() (default: after setup)
        sessions  number of sessions connected to the cluster (default 1); Cluster.sessions then iterates in
                  creation order (OrderedWeakSet)
    """

    def __init__(self, params):
        self.p = p = dict(params)
        n = p.get('hosts', 2)
        self.addrs = ['10.0.0.%d' % (i + 1) for i in range(n)]
        self.server = VServer([HostSpec(a) for a in self.addrs])
        self.spec = dict((h.address, h) for h in self.server.hosts)
        # up | down | auth | once (= refuses exactly the next connection attempt, then is up again)
        # | second (= accepts the next attempt, refuses exactly the one after it, then is up again)
        self.mode = dict((a, 'up') for a in self.addrs)
        self.gone = set(p.get('initial_gone', ()))                # not in the peers table
        self.server.peer_rows_override = self._peer_rows
        self.server.on_request = self._on_request
        self.server.on_connect = self._on_connect
        self.w = World(self.server, trace=p.get('trace', False))
        self.w.__enter__()
        try:
            self.llog, self.plog = [], []
            self.oid = ObjIds()
            self.listener = RecListener(self.llog, self.oid)
            self.lbp = RecPolicy(self.plog, ignored=p.get('ignored', ()), oid=self.oid,
                                 ignore_while_down=p.get('ignore_while_down', ()))
            # The driver's default graph profiles wrap the default profile's policy, which would then be
            # notified once per profile by design; give them policies of their own so that the recording
            # policy hears exactly what ONE profile's policy hears.
            ign = p.get('ignored', ())
            iwd = p.get('ignore_while_down', ())
            profiles = {
                EXEC_PROFILE_DEFAULT: ExecutionProfile(load_balancing_policy=self.lbp),
                EXEC_PROFILE_GRAPH_DEFAULT: GraphExecutionProfile(load_balancing_policy=RecPolicy([], ign, None, iwd)),
                EXEC_PROFILE_GRAPH_SYSTEM_DEFAULT: GraphExecutionProfile(load_balancing_policy=RecPolicy([], ign, None, iwd)),
                EXEC_PROFILE_GRAPH_ANALYTICS_DEFAULT: GraphAnalyticsExecutionProfile(load_balancing_policy=RecPolicy([], ign, None, iwd)),
            }
            self.cluster = self.w.make_cluster(
                execution_profiles=profiles,
                reconnection_policy=ConstantReconnectionPolicy(p.get('delay', 1.0), max_attempts=None),
                **p.get('cluster_kw', {}))
            # the control connection keeps its own reference to the time module ("for testing purposes")
            from vt.world import vworld as _vw
            self.cluster.control_connection._time = _vw._VTime
            nsess = p.get('sessions', 1)
            if nsess > 1:
                self.cluster.sessions = OrderedWeakSet(self.cluster.sessions)
            self.sessions = [self.cluster.connect(wait_for_all_pools=True) for _ in range(nsess)]
            self.session = self.sessions[0]
            if nsess > 1 and tuple(self.cluster.sessions) != tuple(self.sessions):
                raise RuntimeError('Cluster.sessions does not iterate in creation order')
            self.w.settle()
            self.cluster.register_listener(self.listener)
            self.initial_members = dict((addr_of(h), h.is_up) for h in self.cluster.metadata.all_hosts())
            for h in sorted(self.cluster.metadata.all_hosts(), key=addr_of):
                self.oid(h)
            self.auth_stopped = []      # reconnection handlers whose series ended with AuthenticationFailed
            self.n_initial = len(self.oid.objs)
            del self.plog[:]
            self.hosts = dict((addr_of(h), h) for h in self.cluster.metadata.all_hosts())
            self.w.manual = True
            # monitor bookkeeping (harness side)
            self.stats = {'reconnect_ok': 0, 'reconnect_fail': 0, 'reconnect_auth': 0, 'removed_while_down': 0,
                          'added': 0, 'removed': 0}
        except BaseException:
            self.w.__exit__()
            raise

    def close(self):
        self.w.__exit__()

    # ------------------------------------------------------------------ server behaviour
    def _peer_rows(self, conn):
        me = conn.endpoint.address
        return [h.peer_row() for h in self.server.hosts if h.address != me and h.address not in self.gone]

    def _on_request(self, server, conn, stream, req):
        if req['op'] == 'STARTUP' and self.mode.get(conn.endpoint.address) == 'auth':
            return wire.OP_AUTHENTICATE, wire.w_string('org.apache.cassandra.auth.PasswordAuthenticator')
        return None

    def _on_connect(self, conn):
        a = conn.endpoint.address
        once = self.mode.get(a) == 'once'
        second = self.mode.get(a) == 'second'
        if once:
            self.mode[a] = 'up'         # this attempt is the one that is refused (spec.up is still False)
        try:
            return VServer.on_connect(self.server, conn)
        finally:
            if once:
                self.spec[a].up = True
            if second:
                # this attempt was accepted; the next one is the one that is refused
                self.mode[a] = 'once'
                self.spec[a].up = False

    def set_mode(self, addr, mode):
        self.mode[addr] = mode
        self.spec[addr].up = mode not in ('down', 'once')

    # ------------------------------------------------------------------ lookups
    def host(self, addr):
        """The Host object currently (or last) known for addr."""
        h = self.cluster.metadata.get_host(addr)
        if h is not None:
            self.hosts[addr] = h
            return h
        return self.hosts.get(addr)

    def refresh_hosts(self):
        for h in self.cluster.metadata.all_hosts():
            self.hosts[addr_of(h)] = h
            self.oid(h)

    def added_later(self, host):
        """True for a Host instance that the driver created during the history (node-list refresh), False for
        the instances that were there when the history started."""
        return self.oid(host) >= self.n_initial

    def in_metadata(self, addr):
        return self.cluster.metadata.get_host(addr) is not None

    def pool(self, addr, si=0):
        h = self.host(addr)
        return self.sessions[si]._pools.get(h) if h is not None else None

    def control_conn(self):
        return self.cluster.control_connection._connection

    # ------------------------------------------------------------------ reconnection handlers
    @staticmethod
    def _handler_of(fn):
        s = getattr(fn, '__self__', None)
        if isinstance(s, _HostReconnectionHandler) and getattr(fn, '__name__', '') == 'run':
            return s
        return None

    def handlers(self):
        """[(handler, where)] for every _HostReconnectionHandler.run that is scheduled or queued."""
        out = []
        for run_at, seq, task, sch in sorted(self.w.sched_tasks, key=lambda t: (t[0], t[1])):
            h = self._handler_of(task[0])
            if h is not None:
                out.append((h, 'scheduled'))
        for t in self.w.tasks:
            h = self._handler_of(t[1])
            if h is not None:
                out.append((h, 'queued'))
        return out

    def live_handlers(self, addr):
        return [(h, where) for h, where in self.handlers() if addr_of(h.host) == addr and not h._cancelled]

    # ------------------------------------------------------------------ events
    def fail_pool_connection(self, addr, si=0):
        """The connection of the pool that session number si has for addr dies and the pool is told about it
        the way the heartbeat thread does (ConnectionHeartbeat.run: 'make sure the owner sees this
        defunct/closed connection')."""
        pool = self.pool(addr, si)
        conn = pool._connection
        conn.defunct(OSError(104, 'Connection reset by peer'))
        pool.return_connection(conn)

    def can_fail(self, addr, si=0):
        pool = self.pool(addr, si)
        if pool is None or pool.is_shutdown:
            return False
        c = pool._connection
        return c is not None and not (c.is_closed or c.is_defunct)

    def push_status(self, addr, change):
        self.server.push_event(self.control_conn(), wire.event_status(change, addr))

    def push_topology(self, addr, change):
        self.server.push_event(self.control_conn(), wire.event_topology(change, addr))

    def fire_next_scheduled(self):
        entries = sorted(self.w.sched_tasks, key=lambda t: (t[0], t[1]))
        self.w.fire_sched(entries[0])

    def run_task(self, i=0):
        t = self.w.tasks[i]
        h = self._handler_of(t[1])
        fut = t[0]
        if h is not None and not h._cancelled and not fut.cancelled():
            mode = self.mode.get(addr_of(h.host))
            self.stats['reconnect_' + {'up': 'ok', 'down': 'fail', 'once': 'fail', 'second': 'ok', 'auth': 'auth'}[mode]] += 1
            if mode == 'auth':
                self.auth_stopped.append(h)
        self.w.run_task(i)
        self.w.deliver_outbox()

    def drain(self, limit=400):
        n = 0
        while self.w.tasks:
            n += 1
            if n > limit:
                raise RuntimeError('executor does not drain (%d tasks run): %r' % (n, [t[4] for t in self.w.tasks][:6]))
            self.run_task(0)
        return n

    # ------------------------------------------------------------------ canonical pieces
    def host_label(self, host):
        """address, marked when the instance is not (any more) the one the metadata holds"""
        a = addr_of(host)
        return a if self.cluster.metadata.get_host(host.endpoint) is host else a + '~stale'

    def task_label(self, fn, args):
        h = self._handler_of(fn)
        if h is not None:
            return ('reconnect.run', self.host_label(h.host), h._cancelled, h.is_host_addition)
        name = getattr(fn, '__qualname__', None) or getattr(getattr(fn, 'func', None), '__qualname__', repr(fn))
        a = []
        for x in args:
            if hasattr(x, 'endpoint') and hasattr(x, 'is_up'):
                a.append(self.host_label(x))
            elif x is None or isinstance(x, (bool, int, str)):
                a.append(x)
            elif isinstance(x, VConnection):
                a.append('c%d' % x.vid)
        owner = getattr(fn, '__self__', None)
        if owner is not None and hasattr(owner, 'host') and hasattr(owner, 'is_shutdown'):
            a.append(('pool', addr_of(owner.host), owner.is_shutdown))
        cells = getattr(fn, '__closure__', None)
        if cells:
            for var, cell in zip(fn.__code__.co_freevars, cells):
                try:
                    x = cell.cell_contents
                except ValueError:
                    continue
                if hasattr(x, 'endpoint') and hasattr(x, 'is_up'):
                    a.append((var, self.host_label(x)))
                elif isinstance(x, bool):
                    a.append((var, x))
        return (name,) + tuple(a)

    def sched_canon(self):
        now = self.w.clock.now
        out = []
        for run_at, seq, task, sch in sorted(self.w.sched_tasks, key=lambda t: (t[0], t[1])):
            out.append((round(run_at - now, 4),) + self.task_label(task[0], task[1]))
        return tuple(out)

    def tasks_canon(self):
        return tuple(self.task_label(t[1], t[2]) + (t[0].cancelled(),) for t in self.w.tasks)
