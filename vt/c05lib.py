"""Reactor read-loop worlds for C05: the REAL read paths of the event-loop reactors that can be imported on
this interpreter, fed by a scripted socket.

* asyncio: the real cassandra.io.asyncioreactor.AsyncioConnection (vt.c11lib.VAsyncioConnection: only
  `_connect_socket` is replaced) on `ScriptedLoop` = vt.c11lib.VLoop whose `sock_recv(sock, n)` is scripted:
  it returns the next scripted chunk (never more than n bytes: a longer chunk is cut at n and the rest stays
  in the "kernel buffer") at once when bytes are waiting, and otherwise parks the caller on a future that the
  harness completes when the next bytes "arrive".  `AsyncioConnection.handle_read` itself decides when it
  calls sock_recv, with which size, and when it calls process_io_buffer().
* twisted: the real cassandra.io.twistedreactor.TwistedConnection connected through twisted's endpoint code
  on vt.c11lib.VReactor; the bytes of one read are handed to the protocol twisted built for the connection
  (`dataReceived`), as twisted's transport does from doRead.

Both connections complete the driver's own handshake (OPTIONS/SUPPORTED, STARTUP/READY) through the same
scripted read path.  Nothing here knows what the read loops are supposed to do: the oracle lives in
checks/c05.py.
"""
import collections
import threading

from vt import c11lib
from vt.core import HarnessError
from vt.world import wire
from vt.vthreading import RT

import cassandra.io.asyncioreactor as ar

tr = c11lib.tr
TWISTED_ERROR = c11lib.TWISTED_ERROR


class SetupFailed(Exception):
    """The driver's own handshake did not complete through the read path under test."""


def _answers(version, written):
    """Server side of the handshake: the response frames for the complete request frames in `written`
    -> (response bytes list, unconsumed rest)."""
    out = []
    while True:
        hdr = wire.parse_header(written)
        if hdr is None:
            break
        v, flags, stream, op, ln, hs = hdr
        if len(written) < hs + ln:
            break
        written = written[hs + ln:]
        if op == wire.OP_OPTIONS:
            out.append(wire.frame(version, stream, wire.OP_SUPPORTED,
                                  wire.supported({'CQL_VERSION': ['3.4.5'], 'COMPRESSION': []})))
        elif op in (wire.OP_STARTUP, wire.OP_REGISTER):
            out.append(wire.frame(version, stream, wire.OP_READY, b''))
        else:
            raise HarnessError('unexpected request opcode %#x during the handshake' % op)
    return out, written


class _Clock(object):
    now = 0.0


class _WaitingApplication(object):
    """Stand-in for RT.world while application code blocks in wait_for_response() on a reactor connection: the
    loop thread runs meanwhile, and the server answers what the driver wrote (REGISTER -> READY)."""
    clock = _Clock()

    def __init__(self, link):
        self.link = link

    def __enter__(self):
        self._prev = RT.world
        RT.world = self
        return self

    def __exit__(self, *exc):
        RT.world = self._prev
        return False

    def pump(self, pred=None):
        link = self.link
        for _ in range(4):
            link.settle()
            if pred is not None and pred():
                return
            frames, link._rest = _answers(link.version, link._rest + link.written())
            if not frames:
                return
            link.serve(frames)


# ------------------------------------------------------------------------------ asyncio
class ScriptedLoop(c11lib.VLoop):
    """VLoop with a scripted incoming side (the outgoing side is VLoop's)."""
    def __init__(self):
        c11lib.VLoop.__init__(self)
        self.kbuf = collections.deque()     # chunks waiting in the socket: each recv returns (at most) one
        self.eof = False                    # the peer has closed after the bytes in kbuf
        self.parked = None                  # (future, n) of the sock_recv call that found nothing
        self.returned = 0                   # bytes handed to the driver so far
        self.reads = []                     # size of every completed recv
        self.asked = []                     # n of every sock_recv call

    def _take(self, n):
        if self.kbuf:
            head = self.kbuf[0]
            if len(head) <= n:
                self.kbuf.popleft()
            else:
                self.kbuf[0] = head[n:]
                head = head[:n]
        else:
            head = b''                      # only at eof
        self.returned += len(head)
        self.reads.append(len(head))
        return head

    async def sock_recv(self, sock, n):
        if n <= 0:
            raise HarnessError('sock_recv called with size %r' % (n,))
        self.asked.append(n)
        if self.kbuf or self.eof:
            return self._take(n)            # like loop.sock_recv: a successful recv() returns without suspending
        if self.parked is not None:
            raise HarnessError('two sock_recv calls outstanding')
        fut = self.create_future()
        self.parked = (fut, n)
        return await fut

    def arrive(self, chunks, eof=False):
        """Bytes arrive: they wait in the socket; a parked recv is completed with the first chunk."""
        self.kbuf.extend(bytes(c) for c in chunks)
        self.eof = self.eof or eof
        if self.parked is not None and (self.kbuf or self.eof):
            fut, n = self.parked
            self.parked = None
            if not fut.done():
                fut.set_result(self._take(n))


class RAsyncioConnection(c11lib.VAsyncioConnection):
    in_buffer_size = 8


class AsyncioLink(object):
    """One real AsyncioConnection whose socket is scripted."""
    reactor = 'asyncio'

    def __init__(self, version, in_buffer_size):
        self.version = version
        self.B = in_buffer_size
        self.loop = ScriptedLoop()
        self.stub = c11lib._Ident()
        self._saved = (ar.AsyncioConnection._loop, ar.AsyncioConnection._loop_thread,
                       c11lib.VAsyncioConnection._v_rec, RAsyncioConnection.in_buffer_size)
        ar.AsyncioConnection._loop, ar.AsyncioConnection._loop_thread = self.loop, self.stub
        c11lib.VAsyncioConnection._v_rec = c11lib.Recorder()
        RAsyncioConnection.in_buffer_size = in_buffer_size
        self.conn = None
        self._wpos = 0
        try:
            self.conn = RAsyncioConnection('10.0.0.1', protocol_version=version)
            self.settle()
            self._handshake()
        except BaseException:
            self.close()
            raise

    # -- driving
    def settle(self):
        """Run the loop until nothing is ready (the loop thread would now sleep in select)."""
        self.stub.ident = threading.get_ident()
        try:
            self.loop.drain(limit=100000)
        finally:
            self.stub.ident = None

    def written(self):
        data = b''.join(self.conn._socket.sent)
        new, self._wpos = data[self._wpos:], len(data)
        return new

    def _handshake(self):
        self._rest = b''
        for _ in range(4):
            if self.conn.connected_event.is_set():
                break
            frames, self._rest = _answers(self.version, self._rest + self.written())
            if not frames:
                break
            self.serve(frames)
        c = self.conn
        if not c.connected_event.is_set() or c.last_error or c.is_closed or c.is_defunct:
            raise SetupFailed('asyncio handshake with in_buffer_size=%d (reads %r) did not complete: last_error=%r%s'
                              % (self.B, self.loop.reads, c.last_error, self.trouble()))
        self.reset_counters()

    def serve(self, frames):
        # the whole answer is waiting in the socket: recv(in_buffer_size) returns it in full reads
        self.loop.arrive([b''.join(frames)])
        self.settle()

    def application(self):
        return _WaitingApplication(self)

    def reset_counters(self):
        del self.loop.reads[:]
        del self.loop.asked[:]
        self.loop.returned = 0

    def read_each(self, chunk):
        """`chunk` arrives while the reader waits; the loop runs until idle."""
        self.loop.arrive([chunk])
        self.settle()

    def read_burst(self, chunks, eof=False):
        """All chunks are in the socket before the reader runs again: recv returns them one after the other
        without the reader ever waiting."""
        self.loop.arrive(chunks, eof=eof)
        self.settle()

    def eof(self):
        self.loop.arrive([], eof=True)
        self.settle()

    # -- observing
    @property
    def returned(self):
        return self.loop.returned

    def reader_waiting(self):
        return self.loop.parked is not None

    def unread(self):
        return sum(len(c) for c in self.loop.kbuf)

    def trouble(self):
        errs = sorted(set(self.loop.errors + self.loop.task_errors()))
        return ('; on the loop: ' + '; '.join(errs[:3])) if errs else ''

    def close(self):
        try:
            self.loop.dispose()
        finally:
            (ar.AsyncioConnection._loop, ar.AsyncioConnection._loop_thread,
             c11lib.VAsyncioConnection._v_rec, RAsyncioConnection.in_buffer_size) = self._saved


# ------------------------------------------------------------------------------ twisted
class _Connector(object):
    def __init__(self):
        self.disconnected = 0

    def disconnect(self):
        self.disconnected += 1


if tr is not None:
    class RReactor(c11lib.VReactor):
        """VReactor that remembers the protocol twisted built for each connection (the object whose
        dataReceived the transport calls)."""
        def __init__(self, rec):
            c11lib.VReactor.__init__(self, rec)
            self.protocols = []

        def connectTCP(self, host, port, factory, timeout=30, bindAddress=None):
            proto = factory.buildProtocol(None)
            t = c11lib.VTransport(self)
            t.connector = _Connector()
            self.transports.append(t)
            self.protocols.append(proto)
            proto.makeConnection(t)
            return t


class TwistedLink(object):
    """One real TwistedConnection on the virtual reactor; reads go to the protocol's dataReceived."""
    reactor = 'twisted'

    def __init__(self, version, in_buffer_size=None):
        if tr is None:
            raise HarnessError('twisted reactor not importable: %s' % TWISTED_ERROR)
        self.version = version
        self.B = None
        self.r = RReactor(c11lib.Recorder())
        self._saved = (tr.reactor, tr.TwistedConnection._loop)
        tr.reactor, tr.TwistedConnection._loop = self.r, c11lib._TwLoopStub()
        self.conn = None
        self.returned = 0
        self.reads = []
        self._wpos = 0
        try:
            self.conn = c11lib.VTwistedConnection('10.0.0.1', protocol_version=version)
            self.settle()
            if self.conn.transport is None or len(self.r.protocols) != 1:
                raise HarnessError('TwistedConnection did not get its transport from the virtual reactor')
            self.proto = self.r.protocols[0]
            self._handshake()
        except BaseException:
            self.close()
            raise

    def settle(self):
        guard = 0
        while not self.r.idle():
            self.r.turn()
            guard += 1
            if guard > 1000:
                raise HarnessError('virtual reactor does not become idle')

    def written(self):
        data = b''.join(self.conn.transport.sent)
        new, self._wpos = data[self._wpos:], len(data)
        return new

    def _handshake(self):
        self._rest = b''
        for _ in range(4):
            if self.conn.connected_event.is_set():
                break
            frames, self._rest = _answers(self.version, self._rest + self.written())
            if not frames:
                break
            self.serve(frames)
        c = self.conn
        if not c.connected_event.is_set() or c.last_error or c.is_closed or c.is_defunct:
            raise SetupFailed('twisted handshake (one whole frame per dataReceived) did not complete: last_error=%r'
                              % (c.last_error,))

    def serve(self, frames):
        for f in frames:
            self.proto.dataReceived(f)
        self.settle()

    def application(self):
        return _WaitingApplication(self)

    def reset_counters(self):
        del self.reads[:]
        self.returned = 0

    def read_each(self, chunk):
        self.returned += len(chunk)
        self.reads.append(len(chunk))
        self.proto.dataReceived(bytes(chunk))
        self.settle()

    def reader_waiting(self):
        return True

    def unread(self):
        return 0

    def trouble(self):
        return ''

    def close(self):
        tr.reactor, tr.TwistedConnection._loop = self._saved


LINKS = {'asyncio': AsyncioLink, 'twisted': TwistedLink}


class cpu_guard(object):
    """The CPU-time guard of VConnection.feed around a whole scripted execution: a read path that stops
    consuming its buffer raises vworld.Livelock (inside an asyncio task it ends up as that task's exception;
    vworld._FEED_STATE['livelocks'] counts it either way)."""
    def __enter__(self):
        import signal
        from vt.world import vworld
        self._signal = signal
        self._on = False
        try:
            self._old = signal.signal(signal.SIGVTALRM, vworld._on_feed_alarm)
        except ValueError:                  # not the main thread: no guard available
            return self
        self._on = True
        self._prev = signal.setitimer(signal.ITIMER_VIRTUAL, vworld._feed_budget())
        return self

    def __exit__(self, *exc):
        if not self._on:
            return False
        signal = self._signal
        if self._prev[0]:
            signal.setitimer(signal.ITIMER_VIRTUAL, *self._prev)
        else:
            signal.setitimer(signal.ITIMER_VIRTUAL, 0)
        signal.signal(signal.SIGVTALRM, self._old)
        return False


# ------------------------------------------------------------------------------ read scripts
def bounded_compositions(length, maxpart):
    """every way to write `length` as an ordered sum of parts in 1..maxpart, as cut tuples, in a fixed order"""
    out = []

    def rec(pos, cuts):
        if pos == length:
            out.append(tuple(cuts[:-1]))
            return
        for p in range(1, min(maxpart, length - pos) + 1):
            cuts.append(pos + p)
            rec(pos + p, cuts)
            cuts.pop()
    rec(0, [])
    return out


def greedy_family(length, maxpart, shorts=(1, -1)):
    """Read scripts of a reader that asks for `maxpart` bytes each time: all reads full (the last one takes
    what is left), and every script in which exactly one read -- any one -- comes back short (s bytes for
    s > 0, maxpart + s bytes for s < 0, each s in `shorts`) and the others are full again.  -> sorted cut tuples"""
    def fill(pos, cuts):
        while pos < length:
            pos = min(length, pos + maxpart)
            cuts.append(pos)
        return tuple(cuts[:-1])
    seen = set()
    seen.add(fill(0, []))
    nfull = (length + maxpart - 1) // maxpart
    for i in range(nfull + 1):
        start = i * maxpart
        if start >= length:
            break
        for s in shorts:
            size = s if s > 0 else maxpart + s
            if not 0 < size < maxpart or start + size > length:
                continue
            cuts = [maxpart * (j + 1) for j in range(i)]
            cuts.append(start + size)
            seen.add(fill(start + size, cuts))
    return sorted(seen, key=lambda c: (len(c), c))
