"""Pool world shared by C12 (pool accounting / close what was opened) and C13 (replacement of an
overloaded connection).

A real Cluster + Session over the virtual server: the control connection lives on 10.0.0.1 (which
the load-balancing policy ignores), the pool under test is the one for 10.0.0.2 -- a
`HostConnection` (protocol v3+) or a `HostConnectionPool` (protocol v1/v2, core=1, max=2, growth and
trashing thresholds lowered).  Pool connections get a small `max_in_flight` and a small
`orphaned_threshold`, so capacity and replacement are reached within a few requests.  The server
holds every application request; the explorer decides when it is answered (with a result, or with
an error that the retry policy answers with "retry on the same host": the retry is an executor
task), when the client gives up on it -- also after its response has been processed, while the retry
is still queued or (engine S) while the reactor is still inside the response handler --, when a
connection breaks, when the next executor task runs (and whether the connection it opens is accepted
or refused), when the socket of a pool connection stops being writable (`Connection.send_msg` then
refuses a request with ConnectionBusy and the slot is given back unused) or is writable again, whether
the next executor task runs between a request's borrow and its send ('req-gap'), and when the pool is
shut down.

The monitors are independent of the driver's own counters wherever the statement is about what
happens on the wire: which streams are outstanding on which connection is taken from what the
*server* received and answered; a request counts as given up once the application has been handed
an outcome for it (or while its client-side timeout is expiring).

Engine E: `PoolHarness` (events = request / request with the next task run between its borrow and its send /
answer / answer with a retried error / timeout / connection reset / socket not writable / writable again /
next task with the connect accepted or refused / shutdown).  Engine S: `sched_run`
(client, reactor, timer, executor-worker, shutdown and script threads -- a script thread applies a fixed
list of whole events, the handlers of several driver threads one after the other -- after a staged
single-threaded prefix, optionally followed by a single-threaded epilogue; scheduling points at every
line of the pool class; at the end what is outstanding finishes answers first or client timeouts first).
A hook on the pool's borrow_connection judges what it hands out at the moment it returns; a hook on the pool
connections' get_request_id (called under the connection lock right after in_flight was raised) judges, under
engine S, that no stream is handed to a thread that was suspended in a condition wait when the pool's
shutdown() returned.  Both use the same judgements (`PoolWorld.*_findings`); each property passes the list of
clauses it owns, hits of the other property's clauses are only counted.
"""
from vt import explore, sched
from vt.connlib import quiet_driver_logs
from vt.world.vworld import World, VServer, HostSpec, VConnection, VClock
from vt.world import wire
from vt.vthreading import WouldBlock
from vt.reqworld import ScriptedRetryPolicy, Observer, response_body

from cassandra.cluster import ExecutionProfile, EXEC_PROFILE_DEFAULT, NoHostAvailable
from cassandra.connection import ConnectionException, ConnectionBusy
from cassandra.policies import LoadBalancingPolicy, HostDistance, ConvictionPolicy
from cassandra.pool import NoConnectionsAvailable, HostConnection, HostConnectionPool
from cassandra.query import SimpleStatement
import cassandra.pool as _pool

CTRL = '10.0.0.1'
POOLHOST = '10.0.0.2'

CONNECT_TASKS = ('HostConnection._replace', 'HostConnectionPool._create_new_connection',
                 'HostConnectionPool._retrying_replace')


class SpinClock(VClock):
    """Virtual clock on which time passes for a caller that polls it in a loop: after `limit` readings
    within one explorer event every further reading advances it by half a second.  (On the real clock
    a polling loop such as the one in HostConnection.borrow_connection ends because time passes by
    itself; on a clock that only the explorer moves it would never end.)"""
    def __init__(self, start=1000.0, limit=3000):
        self._now = start
        self.limit = limit
        self.reads = 0
        self.spun = 0

    @property
    def now(self):
        self.reads += 1
        if self.reads > self.limit:
            self._now += 0.5
            self.spun += 1
        return self._now

    @now.setter
    def now(self, v):
        self._now = v

    def new_event(self):
        self.reads = 0


class LoopServer(VServer):
    """Server whose automatic answers (handshakes, system tables) are delivered at once, from inside
    the push that carried the request: under engine S nothing pumps an outbox."""
    def respond(self, p, op, body, deliver=False, **kw):
        VServer.respond(self, p, op, body, deliver=True, **kw)


class PoolLBP(LoadBalancingPolicy):
    """Requests go to the pool host only; the control connection (which asks for a plan without a
    statement) may use every live host, i.e. it stays on 10.0.0.1."""
    def __init__(self):
        self._live = []

    def populate(self, cluster, hosts):
        self._live = list(hosts)

    def distance(self, host):
        return HostDistance.LOCAL if host.endpoint.address == POOLHOST else HostDistance.IGNORED

    def make_query_plan(self, working_keyspace=None, query=None):
        hosts = sorted(self._live, key=lambda h: h.endpoint.address)
        if query is None:
            return hosts
        return [h for h in hosts if h.endpoint.address == POOLHOST]

    def on_up(self, host):
        if host not in self._live:
            self._live.append(host)

    def on_down(self, host):
        if host in self._live:
            self._live.remove(host)

    on_add = on_up
    on_remove = on_down


class NeverConvict(ConvictionPolicy):
    """A failed connection does not mark the host down (so the pool replaces the connection)."""
    def add_failure(self, connection_exc):
        return False

    def reset(self):
        pass


def conn_class(max_in_flight, orphaned_threshold):
    class PoolConn(VConnection):
        refused = False

        def __init__(self, *a, **kw):
            if not kw.get('is_control_connection'):
                if max_in_flight is not None:
                    self.max_in_flight = max_in_flight
                if orphaned_threshold is not None:
                    self.orphaned_threshold = orphaned_threshold
            try:
                VConnection.__init__(self, *a, **kw)
            except OSError:
                self.refused = True          # never opened: the server refused the connect
                raise

        def get_request_id(self):
            # (called with the connection lock held, right after in_flight was raised: the moment a stream is handed out)
            rid = VConnection.get_request_id(self)
            h = PoolConn.on_stream
            if h is not None and not self.is_control_connection:
                h(self, rid)
            return rid
    PoolConn.on_stream = None
    return PoolConn


class PoolWorld(object):
    """params: proto, max_in_flight, orphaned_threshold, convict (bool), timeout,
    legacy pool: core, max_conns, min_reqs, max_reqs, trash_interval"""

    def __init__(self, params):
        quiet_driver_logs()
        self.p = p = dict(params)
        self.proto = p.get('proto', 4)
        self.server = (LoopServer if p.get('loopback') else VServer)([HostSpec(CTRL), HostSpec(POOLHOST)])
        self.w = World(self.server, trace=p.get('trace', False))
        self.w.clock = SpinClock(limit=p.get('spin_limit', 3000))
        self.w.__enter__()
        self._saved_trash_interval = _pool._MIN_TRASH_INTERVAL
        try:
            if 'trash_interval' in p:
                _pool._MIN_TRASH_INTERVAL = p['trash_interval']
            self.retry = ScriptedRetryPolicy()
            self.lbp = PoolLBP()
            prof = ExecutionProfile(load_balancing_policy=self.lbp, retry_policy=self.retry,
                                    request_timeout=p.get('timeout', 1000.0))
            self.conn_cls = conn_class(p.get('max_in_flight'), p.get('orphaned_threshold'))
            kw = dict(execution_profiles={EXEC_PROFILE_DEFAULT: prof}, protocol_version=self.proto,
                      contact_points=[CTRL], connection_class=self.conn_cls)
            if not p.get('convict', True):
                kw['conviction_policy_factory'] = lambda host: NeverConvict(host)
            self.cluster = self.w.make_cluster(**kw)
            if self.proto < 3:
                c = self.cluster
                c.set_core_connections_per_host(HostDistance.LOCAL, p.get('core', 1))
                c.set_max_connections_per_host(HostDistance.LOCAL, p.get('max_conns', 2))
                c.set_min_requests_per_connection(HostDistance.LOCAL, p.get('min_reqs', 0))
                c.set_max_requests_per_connection(HostDistance.LOCAL, p.get('max_reqs', 1))
            self.session = self.cluster.connect(wait_for_all_pools=True)
            self.w.settle()
            self.host = [h for h in self.cluster.metadata.all_hosts() if h.endpoint.address == POOLHOST][0]
            self.pool = self.session._pools[self.host]
            want = HostConnection if self.proto >= 3 else HostConnectionPool
            if type(self.pool) is not want:
                raise explore.HarnessError('expected %s, got %r' % (want.__name__, self.pool))
            self.legacy = self.proto < 3
            self.spec = self.server.hosts[1]
            self.server.hold = self._hold
            self.w.manual = True
            self.base_received = len(self.server.received)
            self.reqs = []               # (future, observer)
            self.exec_raised = []
            self.orphan_hit = {}         # vid -> True once `orphaned_threshold` streams were orphaned at the same time
            self.req_after_hit = set()   # vids on which a request was issued after the threshold was hit
            self.problems = []           # (clause, site, text) recorded by the hooks
            self.closes = []
            self.trash_seen = set()
            self.nconns_at_shutdown = None
            self.n_defunct = 0
            self.n_fail = 0
            self.n_late = 0
            self.n_retry = 0             # answers with an error that the retry policy had retried on the same host
            self.n_late_timeout = 0      # client timeouts of a request whose response had already been processed
            self.skipped = 0             # engine S epilogue events that were not possible
            self.timing_out = None
            self.stuck = None
            self.n_unwritable = 0        # fault events "the socket of a pool connection stopped being writable"
            self.n_busy = 0              # requests whose send was refused with ConnectionBusy
            self.n_gap = 0               # requests between whose borrow and send an executor task ran
            self.gap = None              # engine E: what happens between the borrow of the request being issued and its send
            self.w.close_hooks.append(self._on_close)
            self._pool_borrow = self.pool.borrow_connection
            self.pool.borrow_connection = self._borrow      # instance attribute: the pool's own code is untouched
            self.sched = None            # engine S: the scheduler of this execution
            self.waiting_at_shutdown = {}    # engine S: tid -> name of the threads suspended in a Condition.wait when shutdown() returned
            self.n_waiters_at_shutdown = 0
            self._pool_shutdown = self.pool.shutdown
            self.pool.shutdown = self._shutdown             # (also reached by the driver's own calls of self.shutdown())
            self.conn_cls.on_stream = self._on_stream
        except BaseException:
            self.close()
            raise

    def close(self):
        _pool._MIN_TRASH_INTERVAL = self._saved_trash_interval
        self.w.__exit__()

    # ------------------------------------------------------------------ observation
    def pool_conns(self):
        """every connection object created towards the pool host after the control connection"""
        return [c for c in self.w.conns if not c.is_control_connection and c.endpoint.address == POOLHOST]

    def opened_conns(self):
        return [c for c in self.pool_conns() if not c.refused]

    def capacity(self, conn):
        """Request capacity of a pool connection, taken from outside the driver's own bookkeeping: what
        the application configured (`Connection.max_in_flight`: "max concurrent requests allowed per
        connection"), and never more than the number of stream ids the protocol version has."""
        return min(conn.max_in_flight, 128 if self.proto < 3 else 32768)

    def current_conns(self):
        if self.legacy:
            return list(self.pool._connections)
        c = self.pool._connection
        return [c] if c is not None else []

    def open_pending(self):
        return sorted((p for p in self.server.pending if not p.conn.is_closed and not p.conn.is_defunct),
                      key=lambda p: p.seq)

    def given_up(self, p):
        """the application has been given an outcome for the request behind pending entry p (it timed
        out on the client side, or failed otherwise): nobody is waiting for this answer any more"""
        q = p.req.get('query', '')
        if not q.startswith('SELECT q'):
            return False
        tag = int(q[8:])
        if tag == self.timing_out:
            return True              # its client-side timeout is expiring right now
        f, o = self.reqs[tag]
        return o is not None and o.n > 0

    @property
    def orphaned(self):
        return set((p.conn.vid, p.stream) for p in self.server.pending if self.given_up(p))

    def live_on(self, conn):
        """requests outstanding on the wire of `conn` that the client is still waiting for"""
        return [p for p in self.server.pending if p.conn is conn and not self.given_up(p)]

    def wire_of(self, tag):
        q = 'SELECT q%d' % tag
        last = None
        for vid, stream, req in self.server.received[self.base_received:]:
            if req.get('query') == q:
                last = (vid, stream)
        return last

    def replaced_conns(self):
        """HostConnection: connections that hit the orphan threshold and are no longer the pool's
        current connection although the pool has one (i.e. the replacement has completed)"""
        if self.legacy:
            return []
        cur = self.pool._connection
        if cur is None:
            return []
        return [c for c in self.opened_conns() if c is not cur and c.vid in self.orphan_hit]

    def _hold(self, conn, req):
        if req['op'] not in ('QUERY', 'PREPARE', 'EXECUTE', 'BATCH'):
            return False
        q = req.get('query', '')
        if req['op'] == 'QUERY' and (' system.' in q or q.strip().upper().startswith('USE ')):
            return False
        vid, stream, _ = self.server.received[-1]
        for p in self.server.pending:
            if p.conn is conn and p.stream == stream:
                self.problems.append(('capacity', 'stream-reused-while-outstanding',
                                      'stream %d of connection #%d handed out again while %r is unanswered' % (stream, vid, p)))
        n = sum(1 for p in self.server.pending if p.conn is conn) + 1
        cap = conn.max_request_id + 1
        if n > cap:
            self.problems.append(('capacity', 'more-streams-than-ids',
                                  '%d requests outstanding on connection #%d which has %d stream ids' % (n, vid, cap)))
        elif not conn.is_control_connection and conn.endpoint.address == POOLHOST and n > self.capacity(conn):
            self.problems.append(('capacity', 'more-requests-than-max-in-flight',
                                  'the server has %d requests outstanding on connection #%d whose max_in_flight is %d'
                                  % (n, vid, self.capacity(conn))))
        return True

    def _on_close(self, conn):
        if conn.is_control_connection or conn.endpoint.address != POOLHOST:
            return
        live = self.live_on(conn)
        why = 'shutdown' if self.pool.is_shutdown else 'defunct' if conn.is_defunct else 'pool'
        self.closes.append((conn.vid, len(live), why))
        if live and why == 'pool':
            self.problems.append(('closed-with-live-requests', type(self.pool).__name__,
                                  'connection #%d closed by the pool while %r still await(s) a response' % (conn.vid, live)))

    def _borrow(self, *a, **kw):
        """What the pool hands out, judged at the moment borrow_connection() returns (engine S: no scheduling
        point lies between the return and this judgement): never a stream on a connection that was replaced
        after reaching the orphan threshold and has been closed by the pool."""
        got = self._pool_borrow(*a, **kw)
        conn = got[0] if isinstance(got, tuple) else None
        if conn is not None and not self.legacy and conn.is_closed and not conn.is_defunct and not self.pool.is_shutdown:
            self.note_state()
            if conn in self.replaced_conns():
                self.problems.append(('new-request-on-replaced-connection', 'HostConnection.borrow_connection/closed',
                                      'borrow_connection returned stream %r of connection #%d, which had been replaced by #%d '
                                      'and closed' % (got[1], conn.vid, self.pool._connection.vid)))
        gap, self.gap = self.gap, None
        if gap is not None and conn is not None and self.w.tasks:
            # engine E, event 'req-gap': the next executor task runs to completion on its own thread after this borrower got its
            # stream and before it sends (on real threads nothing orders the two)
            self.n_gap += 1
            self.run_task(0, gap)
            self.w.deliver_outbox()
        return got

    def _shutdown(self):
        """Engine S: which threads are suspended in a wait on a condition at the moment shutdown() returns (the flag is up, the
        waiters have been notified): whatever such a thread decides after it wakes up, it decides on a pool that is already
        shut down."""
        self._pool_shutdown()
        s = self.sched
        if s is not None and self.pool.is_shutdown:
            for t in s.threads:
                if not t.finished and t is not s.current and t.waiting is not None and t.what == 'Condition.wait':
                    if t.tid not in self.waiting_at_shutdown:
                        self.waiting_at_shutdown[t.tid] = t.name
                        self.n_waiters_at_shutdown += 1

    def _on_stream(self, conn, rid):
        """A stream id of a pool connection is being handed out (engine S): not to a borrower that was waiting for a slot
        when the pool's shutdown() returned -- its borrow is from a pool that is already shut down and has to fail."""
        s = self.sched
        if s is None or not self.waiting_at_shutdown or s.current is None or conn.endpoint.address != POOLHOST:
            return
        if s.current.tid in self.waiting_at_shutdown and self.pool.is_shutdown:
            self.problems.append(('borrow-after-shutdown', type(self.pool).__name__ + '/waiter',
                                  'thread %s was waiting for a free slot when shutdown() of the pool returned; woken up, it was '
                                  'handed stream %r of connection #%d (closed: %s, in_flight now %d) instead of failing'
                                  % (s.current.name, rid, conn.vid, conn.is_closed, conn.in_flight)))

    def fresh_usable(self):
        """HostConnection: the pool's current connection if it is a replacement of an overloaded connection
        that has been closed, is open and has free request slots (by the driver's count and by the server's), the pool is in use
        and the host is up; else None"""
        if self.legacy or self.pool.is_shutdown or not self.host.is_up or self.session._pools.get(self.host) is not self.pool:
            return None
        cur = self.pool._connection
        if cur is None or cur.is_closed or cur.is_defunct:
            return None
        self.note_state()
        old = self.replaced_conns()
        if not old or not all(c.is_closed for c in old):
            return None      # (while a replaced connection is still open the driver lets waiting borrowers wait for its slots)
        on_wire = sum(1 for q in self.server.pending if q.conn is cur)
        if cur.in_flight >= cur.max_request_id or on_wire >= cur.max_request_id:
            return None
        return cur

    def note_state(self):
        """bookkeeping after every event"""
        if not self.legacy:
            self.trash_seen |= set(c.vid for c in self.pool._trash)
        else:
            self.trash_seen |= set(c.vid for c in self.pool._trash)
        if self.pool.is_shutdown and self.nconns_at_shutdown is None:
            self.nconns_at_shutdown = len(self.w.conns)
        thr = self.p.get('orphaned_threshold')
        if thr is not None:
            n = {}
            for vid, _ in self.orphaned:
                n[vid] = n.get(vid, 0) + 1
            for vid, k in n.items():
                if k >= thr:
                    self.orphan_hit[vid] = True

    # ------------------------------------------------------------------ events
    def issue(self, gap=None):
        self.gap = gap
        try:
            return self._issue()
        finally:
            self.gap = None

    def set_writable(self, vid, flag):
        """Environment answer at a send: the socket of pool connection #vid is not writable (its send buffer is full, as on a
        connection that collects timeouts) / is writable again.  `Connection.send_msg` refuses a request with ConnectionBusy
        while the flag is down; the reactors that implement the flag (libev) clear and set it from their write watcher."""
        conn = self.w.conns[vid]
        if not flag:
            self.n_unwritable += 1
        with conn.lock:
            conn._socket_writable = flag

    def _issue(self):
        tag = len(self.reqs)
        self.reqs.append((None, None))   # slot taken before the driver is entered (engine S: clients overlap)
        before = set(c.vid for c in self.replaced_conns())
        hit_before = set(self.orphan_hit)
        pre_shutdown = self.pool.is_shutdown
        try:
            f = self.session.execute_async(SimpleStatement('SELECT q%d' % tag))
        except Exception as e:           # noqa
            self.exec_raised.append((tag, type(e).__name__))
            return tag
        if isinstance(f._final_exception, NoHostAvailable):
            # the request could not be sent at all (judged before anything else runs: attaching the observer takes a lock)
            cur = self.fresh_usable()
            busy = [e for e in f._final_exception.errors.values() if isinstance(e, ConnectionBusy)]
            if busy:
                self.n_busy += 1         # refused by the socket (environment), not by the pool: not judged by this clause
            if cur is not None and not busy:
                self.problems.append(('request-refused-beside-fresh-connection', 'HostConnection',
                                      'request q%d was refused (%r) although the overloaded connection had been replaced: the fresh '
                                      'connection #%d is open with %d of %d slots in use'
                                      % (tag, f._final_exception.errors, cur.vid, cur.in_flight, cur.max_request_id)))
        self.reqs[tag] = (f, Observer(f, self.w))
        ws = self.wire_of(tag)
        if ws is not None:
            if ws[0] in before:
                self.problems.append(('new-request-on-replaced-connection', 'HostConnection',
                                      'request q%d was sent on connection #%d after its replacement had completed' % (tag, ws[0])))
            if pre_shutdown and self.w.conns[ws[0]] in self.pool_conns():
                self.problems.append(('borrow-after-shutdown', type(self.pool).__name__,
                                      'request q%d issued after the pool was shut down was sent on its connection #%d' % (tag, ws[0])))
        for vid in hit_before:
            self.req_after_hit.add(vid)
        return tag

    def pending_of(self, tag):
        """the unanswered wire request of request q<tag> on an open connection, or None"""
        q = 'SELECT q%d' % tag
        for p in self.open_pending():
            if p.req.get('query') == q:
                return p
        return None

    def respond(self, idx):
        self.respond_pending(self.open_pending()[idx])

    def respond_pending(self, p):
        if self.given_up(p):
            self.n_late += 1
        self.server.respond(p, wire.OP_RESULT, wire.result_void(), deliver=True)

    def respond_retry(self, idx):
        """The server answers with an error (OVERLOADED) for which the application's retry policy says
        "retry on the same host": the driver processes the response (the stream is free again) and
        queues the retry on the executor; the request's client-side timer keeps running."""
        self.retry_pending(self.open_pending()[idx])

    def retry_pending(self, p):
        self.n_retry += 1
        self.retry.next = ('RETRY', None)
        try:
            op, body = response_body('overloaded', self.proto)
            self.server.respond(p, op, body, deliver=True)
        finally:
            self.retry.next = ('RETHROW', None)

    def outstanding(self, k):
        """request k is on the wire of an open connection and the server has not answered it"""
        q = 'SELECT q%d' % k
        return any(p.req.get('query') == q for p in self.open_pending())

    def timer_of(self, k):
        f = self.reqs[k][0]
        if f is None:
            return None
        t = f._timer
        if t is None or t.canceled or getattr(t, 'fired', False) or t not in self.w.timers:
            return None
        return t

    def timeout(self, k):
        """The client-side timeout of request k expires now (its own, shorter, timeout: the clock is not
        moved to the common deadline, so no other request times out as a side effect)."""
        t = self.timer_of(k)
        t.fired = True
        self.w.timers.remove(t)
        if not self.outstanding(k):
            self.n_late_timeout += 1     # the response has been processed already (or is being processed right now)
        self.timing_out = k
        try:
            t.finish(t.end)
        finally:
            self.timing_out = None

    def defunct(self, vid):
        conn = self.w.conns[vid]
        for q in list(self.server.pending):
            if q.conn is conn:
                self.server.pending.remove(q)
        self.n_defunct += 1
        conn.defunct(OSError(104, 'Connection reset by peer'))

    def run_task(self, idx, mode):
        if mode == 'fail':
            self.n_fail += 1
            self.spec.up = False
        try:
            self.w.run_task(idx)
        finally:
            self.spec.up = True

    def task_connects(self, idx):
        return self.w.tasks[idx][4] in CONNECT_TASKS

    # ------------------------------------------------------------------ run everything to the end
    def drain(self, order):
        """Let everything that is pending finish: queued tasks run (connects accepted), every
        outstanding request is answered and every remaining client timer fires, in the given order
        of preference, until nothing is left."""
        try:
            return self._drain(order)
        except WouldBlock as e:
            # as in apply_event: on real threads this handler hangs for ever
            self.stuck = '%s while everything outstanding is answered' % (e,)
            self.problems.append(('deadlock', type(self.pool).__name__, 'a handler blocks for ever: %s' % self.stuck))
            return True

    def _drain(self, order):
        for _ in range(400):
            self.w.clock.new_event()
            if self.w.tasks:
                self.run_task(0, 'ok')
                self.w.deliver_outbox()
                continue
            steps = []
            if self.open_pending():
                steps.append('resp')
            if any(self.timer_of(k) is not None for k in range(len(self.reqs))):
                steps.append('timeout')
            if not steps:
                return True
            s = order if order in steps else steps[0]
            if s == 'resp':
                self.respond(0)
            else:
                k = [k for k in range(len(self.reqs)) if self.timer_of(k) is not None][0]
                self.timeout(k)
            self.w.deliver_outbox()
        return False

    # ------------------------------------------------------------------ judgements (shared by E and S)
    def invariant_findings(self):
        """C12 accounting clauses + whatever the hooks recorded; valid at every handler boundary
        (engine E) and at every scheduling point (engine S: in_flight only changes in single statements)"""
        out = list(self.problems)
        cls = type(self.pool).__name__
        for c in self.opened_conns():
            cap = self.capacity(c)
            if c.in_flight < 0:
                out.append(('in-flight-negative', cls, 'connection #%d has in_flight %d' % (c.vid, c.in_flight)))
            if c.in_flight > cap:
                out.append(('in-flight-above-capacity', cls,
                            'connection #%d has in_flight %d, its request capacity (max_in_flight) is %d'
                            % (c.vid, c.in_flight, cap)))
        for f, _ in self.reqs:
            if f is not None:
                for e in list(f._errors.values()):
                    if isinstance(e, AssertionError):
                        out.append(('capacity', 'request-id-beyond-max', 'borrow_connection ran out of stream ids: %r' % (e,)))
        return out

    def replacement_findings(self):
        """C13 clauses that are judged on a state (HostConnection only)"""
        out = []
        cls = type(self.pool).__name__
        for c in self.replaced_conns():
            if not c.is_closed and not self.live_on(c):
                out.append(('old-connection-not-closed', cls,
                            'connection #%d was replaced, only orphaned streams remain on it (in_flight %d, orphans %r) '
                            'and it is still open' % (c.vid, c.in_flight, sorted(c.orphaned_request_ids))))
        if not self.legacy and not self.w.tasks and not self.pool.is_shutdown:
            cur = self.pool._connection
            if cur is not None and cur.vid in self.req_after_hit and not cur.is_closed and not cur.is_defunct:
                out.append(('not-replaced', cls,
                            'connection #%d reached the orphan threshold, a request was issued afterwards, no task is '
                            'queued, and it is still the connection new requests would use' % cur.vid))
        return out

    def borrow_after_shutdown_findings(self):
        out = []
        if self.pool.is_shutdown:
            try:
                got = self.pool.borrow_connection(timeout=0.01)
            except (ConnectionException, NoConnectionsAvailable):
                got = None
            if got is not None:
                out.append(('borrow-after-shutdown', type(self.pool).__name__,
                            'borrow_connection on a pool that is shut down returned %r' % (got,)))
        return out

    def end_findings(self, order):
        """C12 post-condition: let everything finish (in place), then every connection the pool ever
        opened must be closed and nothing may be queued that would open another"""
        out = []
        was_stuck = self.stuck
        quiet = self.drain(order)
        cls = type(self.pool).__name__
        if self.stuck and not was_stuck:
            out.append(('deadlock', cls, 'a handler blocks for ever: %s' % self.stuck))
        if not quiet or self.w.tasks:
            out.append(('never-quiescent-after-shutdown', cls,
                        'tasks keep being queued after shutdown: %r' % ([t[4] for t in self.w.tasks],)))
        cur = self.current_conns()
        for c in self.opened_conns():
            if not c.is_closed:
                if c.vid in self.trash_seen:
                    role = 'trashed'
                elif c in cur:
                    role = 'installed-after-shutdown'
                else:
                    role = 'untracked'
                out.append(('leak-after-shutdown', '%s/%s' % (cls, role),
                            'pool is shut down and nothing is pending any more, connection #%d (%s) is still open '
                            '(in_flight %d, orphans %r)' % (c.vid, role, c.in_flight, sorted(c.orphaned_request_ids))))
        return out

    def outcome(self):
        return ('shutdown' if self.pool.is_shutdown else 'open',
                'conns=%d' % len(self.opened_conns()),
                'closed=%d' % sum(1 for c in self.opened_conns() if c.is_closed),
                'trash=%d' % len(self.pool._trash),
                'closes=%s' % ','.join(sorted(set(w for _, _, w in self.closes))),
                'orphans=%d' % len(self.orphaned))

    # ------------------------------------------------------------------ canonical state
    def canon(self):
        conns = []
        trash = self.pool._trash
        cur = self.current_conns()
        for c in self.pool_conns():
            conns.append((c.vid, c.refused, c.in_flight, tuple(sorted(c.orphaned_request_ids)), c.is_closed, c.is_defunct,
                          tuple(sorted(c._requests.keys())), c.orphaned_threshold_reached, tuple(c.request_ids),
                          c.highest_request_id, c in trash, cur.index(c) if c in cur else -1, c.signaled_error,
                          getattr(c, '_socket_writable', True)))
        pool = self.pool
        if self.legacy:
            pl = (pool.is_shutdown, pool.open_count, pool._scheduled_for_creation,
                  round(max(0.0, pool._next_trash_allowed_at - self.w.clock.now), 3))
        else:
            pl = (pool.is_shutdown, pool._is_replacing)
        futs = []
        for k, (f, o) in enumerate(self.reqs):
            if f is None:
                futs.append(None)
                continue
            futs.append((f._event.is_set(), type(f._final_exception).__name__, len(o.results), len(o.errors),
                         self.timer_of(k) is not None, self.wire_of(k), f._query_retries))
        tasks = []
        for t in self.w.tasks:
            args = tuple(getattr(a, 'vid', None) for a in t[2])
            tasks.append((t[4], args))
        pend = tuple((p.conn.vid, p.stream) for p in self.open_pending())
        return (tuple(conns), pl, tuple(futs), tuple(tasks), pend, tuple(sorted(self.orphaned)),
                tuple(sorted(self.orphan_hit)), tuple(sorted(self.req_after_hit)), self.host.is_up,
                self.session._pools.get(self.host) is pool, self.n_defunct, self.n_fail,
                self.session.is_shutdown, len(self.w.sched_tasks), bool(self.stuck), self.n_retry, self.n_late_timeout,
                self.n_unwritable, self.n_gap)


class PoolHarness(explore.Harness):
    """Engine E harness.  params (besides the PoolWorld ones): prop ('C12'|'C13'), clauses (list of
    oracle clauses this property judges), n_req, max_defunct, max_fail, max_unwritable (fault events "socket of connection
    #n not writable"; a connection that is not writable may always become writable again), gap (bool: a request may have
    the next executor task run between its borrow and its send; max_gap such requests per history, default 1), max_retry (answers with a
    retried error, counted from the start of the prefix), shutdown (bool), task_window, prefix (events
    applied in init), drain_orders."""
    name = 'pool'

    def init(self):
        st = PoolWorld(self.params)
        try:
            for ev in self.params.get('prefix', ()):
                apply_event(st, tuple(ev))
        except BaseException:
            st.close()
            raise
        return st

    def cleanup(self, st):
        st.close()

    # -------------------------------------------------------------- alphabet
    def events(self, st):
        p = self.params
        evs = []
        if st.stuck:
            return evs
        if len(st.reqs) < p.get('n_req', 3) and not st.session.is_shutdown:
            evs.append((('req',), 0))
            if p.get('gap') and st.n_gap < p.get('max_gap', 1):
                # the next executor task (one that is queued already, or the one this borrow queues) runs between the
                # borrow and the send of this request
                evs.append((('req-gap', 'ok'), 0))
        for c in st.opened_conns():
            if not c.is_closed and not c.is_defunct:
                if not c._socket_writable:
                    evs.append((('writable', c.vid), 0))
                elif st.n_unwritable < p.get('max_unwritable', 0):
                    evs.append((('unwritable', c.vid), 0))
        for i, pnd in enumerate(st.open_pending()):
            evs.append((('resp', i), 0))
            if st.n_retry < p.get('max_retry', 0) and not st.given_up(pnd):
                evs.append((('resp-retry', i), 0))
        for k in range(len(st.reqs)):
            if st.timer_of(k) is not None:
                evs.append((('timeout', k), 0))
        if st.n_defunct < p.get('max_defunct', 0):
            for c in st.opened_conns():
                if not c.is_closed and not c.is_defunct:
                    evs.append((('defunct', c.vid), 0))
        for i in range(min(len(st.w.tasks), p.get('task_window', 1))):
            evs.append((('task', i, 'ok'), 0))
            if st.task_connects(i) and st.n_fail < p.get('max_fail', 0):
                evs.append((('task', i, 'fail'), 0))
        if p.get('shutdown') and not st.pool.is_shutdown:
            evs.append((('shutdown',), 0))
        return evs

    def apply(self, st, ev):
        apply_event(st, ev)

    def canon(self, st):
        return st.canon()

    # -------------------------------------------------------------- oracle
    def check(self, st, part, hist):
        p = self.params
        data = {'params': p, 'history': hist}
        report(p, part, data, st.invariant_findings())
        report(p, part, data, st.replacement_findings())
        if st.pool.is_shutdown and not st.stuck:
            report(p, part, data, st.borrow_after_shutdown_findings())
            for order in p.get('drain_orders', ('resp',)):
                # post-condition: replay the history into a second world and let everything finish there
                st2 = explore.build(self, hist)
                try:
                    report(p, part, data, st2.end_findings(order))
                    part.count('end_states_judged')
                finally:
                    self.cleanup(st2)
        for c in st.opened_conns():
            if not c.is_closed and not c.is_defunct and sum(1 for q in st.server.pending if q.conn is c) != c.in_flight:
                part.count('states_with_inexact_in_flight')
        part.outcome(st.outcome())
        if st.w.clock.spun:
            part.count('states_after_a_polling_loop_was_ended_by_the_clock')
        if st.n_late_timeout:
            part.count('states_after_a_timeout_of_an_already_answered_request')
        if st.n_busy:
            part.count('states_after_a_send_refused_by_an_unwritable_socket')
        if st.n_gap:
            part.count('states_after_a_task_ran_between_a_borrow_and_its_send')
        if st.closes or st.n_late or st.n_defunct or st.n_fail or st.orphaned or st.n_retry or st.n_busy:
            part.mark_nontrivial(repr(st.canon()))


def apply_event(st, ev):
    kind = ev[0]
    st.w.clock.new_event()
    try:
        if kind == 'req':
            st.issue()
        elif kind == 'req-gap':
            st.issue(gap=ev[1])
        elif kind == 'unwritable':
            st.set_writable(ev[1], False)
        elif kind == 'writable':
            st.set_writable(ev[1], True)
        elif kind == 'resp':
            st.respond(ev[1])
        elif kind == 'resp-retry':
            st.respond_retry(ev[1])
        elif kind == 'timeout':
            st.timeout(ev[1])
        elif kind == 'defunct':
            st.defunct(ev[1])
        elif kind == 'task':
            st.run_task(ev[1], ev[2])
        elif kind == 'shutdown':
            st.pool.shutdown()
        else:
            raise explore.HarnessError('unknown event %r' % (ev,))
        st.w.deliver_outbox()
    except WouldBlock as e:
        # the handler waits, without a timeout, for something only it could provide (e.g. it takes a
        # non-reentrant lock it already holds): on real threads this thread hangs for ever
        st.stuck = '%s during %r' % (e, ev)
        st.problems.append(('deadlock', type(st.pool).__name__, 'a handler blocks for ever: %s' % st.stuck))
    st.note_state()


def report(params, part, data, findings):
    for clause, site, text in findings:
        if clause in params['clauses']:
            part.violation('%s/%s/%s' % (params['prop'], clause, site), text, data)
        else:
            part.count('other_property_clause_hits')


def replay_history(params, hist):
    hist = [tuple(e) for e in hist]
    # on a different tree a recorded event may no longer be possible (e.g. the task it runs is never queued)
    h = PoolHarness(params)
    for i in range(len(hist)):
        st = explore.build(h, hist[:i])
        try:
            enabled = [e for e, _ in h.events(st)]
        finally:
            h.cleanup(st)
        if hist[i] not in enabled:
            print('this history is not possible on the current tree: after %r the event %r is not enabled (enabled: %r)'
                  % (hist[:i], hist[i], enabled))
            return False
    part = explore.replay(PoolHarness, params, hist)
    for fp, what, _ in part.violations:
        print(fp, '::', what)
    return bool(part.violations)


# ====================================================================== engine S
class PoolScheduler(sched.Scheduler):
    """vt.sched.Scheduler on which a timed wait of zero length lets 10 microseconds pass.  A loop of the form
    "remaining = timeout - now + start; if remaining < 0: break; wait(remaining)" (HostConnection.borrow_connection) whose
    wait expires exactly at its deadline goes round once more with remaining == 0; on the real clock that second wait
    returns a little after it was entered, on a clock that only moves to deadlines it would return at the same instant
    for ever (until SpinClock ends it some hundred rounds later, every round a scheduling point)."""
    def block(self, pred, deadline, what):
        if deadline is not None and deadline <= self.clock_now():
            deadline = self.clock_now() + 1e-5
        return sched.Scheduler.block(self, pred, deadline, what)


def focus_codes(cls):
    """code objects of every method (and property getter) defined by the pool class"""
    import types
    out = []
    for v in vars(cls).values():
        if isinstance(v, types.FunctionType):
            out.append(v.__code__)
        elif isinstance(v, property) and v.fget is not None:
            out.append(v.fget.__code__)
    return out


def sched_run(params, prefix, part):
    """One execution under engine S.  params (besides the PoolWorld ones): prop, clauses, stage (events
    applied single-threaded before the threads start), threads (list of 'client' | 'shutdown' |
    'reactor' | 'worker' | 'timer'), orphan_tags (requests the reactor times out instead of answering),
    answer_tags (if given: the only requests the reactor handles while the threads run, the others are
    answered at the end), timer_tags (requests whose client-side timers the timer thread fires, one
    after the other, unless they were cancelled first: a timer that does not run on the thread that
    processes the responses), epilogue (events applied single-threaded once the threads are gone, before
    everything outstanding is answered; one that is not possible then is skipped and counted),
    max_fail (connects the worker's environment may refuse; a data choice charged like a preemption),
    script (thread kind 'script': a list of whole events -- ('req',), ('timeout', k), ('resp', i), ('task', i, mode),
    ('shutdown',), ('defunct', vid), ('unwritable', vid), ('writable', vid) as in engine E, ('resp-tag', k) = answer request qk, ('resp-mine', j) / ('timeout-mine', j) = answer /
    give up the j-th request this thread issued itself, ('wait-task',) = wait until an executor task is queued; a second
    'script' thread takes its events from script2 -- applied one after the other on one thread: the handlers of other threads, in one
    fixed order, running while a borrower or returner is preempted inside a pool method; an event that is not
    possible when its turn comes is skipped and counted),
    drain ('resp' | 'timeout': what comes first when everything outstanding finishes at the end: the answers, or
    the client-side timeouts followed by late answers),
    shutdown_at_end (a pool that no thread shut down is shut down once the threads are gone, then the
    post-condition is judged as after any other shutdown).
    Scheduling points: every virtual primitive and every source line of the pool class's methods."""
    import functools
    p = dict(params)
    p['loopback'] = True
    p.setdefault('spin_limit', 400)
    st = PoolWorld(p)
    try:
        for ev in p.get('stage', ()):
            apply_event(st, tuple(ev))
        cls = type(st.pool).__name__
        s = PoolScheduler(prefix, focus=focus_codes(type(st.pool)), horizon=p.get('horizon', 12000), clock=st.w.clock)
        st.sched = s
        threads = list(p['threads'])
        orphan_tags = set(p.get('orphan_tags', ()))
        answer_tags = set(p['answer_tags']) if p.get('answer_tags') is not None else None
        drain = p.get('drain', 'resp')
        ctl = {'active': sum(1 for t in threads if t in ('client', 'shutdown', 'timer', 'script')), 'worker': 'worker' not in threads,
               'reactor': 'reactor' not in threads}
        flagged = []

        def monitor(_s, kind, info):
            st.note_state()
            if not flagged:
                for c in st.opened_conns():
                    if c.in_flight < 0 or c.in_flight > st.capacity(c):
                        flagged.append(1)
                        st.problems.append(('in-flight-negative' if c.in_flight < 0 else 'in-flight-above-capacity', cls,
                                            'connection #%d has in_flight %d (request capacity %d) at %s %r'
                                            % (c.vid, c.in_flight, st.capacity(c), kind, info)))
        s.monitor = monitor

        def reactor_actions():
            acts = []
            for pnd in st.open_pending():
                if st.given_up(pnd):
                    continue           # late answers to given-up requests come at the end
                tag = int(pnd.req['query'].rsplit('q', 1)[1])
                if answer_tags is not None and tag not in answer_tags:
                    continue
                if tag in orphan_tags:
                    if st.timer_of(tag) is not None:
                        acts.append(('timeout', tag))
                else:
                    acts.append(('resp', pnd))
            return acts

        def quiesced():
            return (ctl['active'] == 0 and ctl['worker'] and ctl['reactor']
                    and ('worker' not in threads or not st.w.tasks)
                    and ('reactor' not in threads or not reactor_actions()))

        def loop(name, work, do):
            def body():
                while True:
                    wk = work()
                    if wk:
                        ctl[name] = False
                        do(wk)
                        st.note_state()
                        continue
                    ctl[name] = True
                    if quiesced():
                        return
                    s.block(lambda: bool(work()) or quiesced(), None, name + ' idle')
            return body

        def do_reactor(acts):
            a = acts[0]
            if a[0] == 'timeout':
                st.timeout(a[1])
            else:
                st.respond_pending(a[1])

        def do_task(_):
            mode = 'ok'
            if st.task_connects(0) and st.n_fail < p.get('max_fail', 0):
                if s.choose(2, 'connect', cost=1) == 1:
                    mode = 'fail'
            st.run_task(0, mode)

        def client():
            try:
                st.issue()
                st.note_state()
            finally:
                ctl['active'] -= 1

        def shutdown():
            try:
                st.pool.shutdown()
                st.note_state()
            finally:
                ctl['active'] -= 1

        def timer():
            try:
                for k in p.get('timer_tags', ()):
                    if st.timer_of(k) is not None:      # (Timer.finish looks at `canceled` once more itself)
                        st.timeout(k)
                        st.note_state()
            finally:
                ctl['active'] -= 1

        def script(events):
            mine = []
            try:
                for ev in events:
                    ev = tuple(ev)
                    kind = ev[0]
                    if kind == 'wait-task':
                        # until a task is queued (if none ever is, until everybody else has waited much longer than any borrow)
                        s.block(lambda: bool(st.w.tasks), s.clock_now() + 1000.0, 'script waits for a task')
                        continue
                    tag = mine[ev[1]] if kind in ('resp-mine', 'timeout-mine') and ev[1] < len(mine) else None
                    if kind == 'req':
                        mine.append(st.issue())
                    elif kind == 'timeout' and st.timer_of(ev[1]) is not None:
                        st.timeout(ev[1])
                    elif kind == 'timeout-mine' and tag is not None and st.timer_of(tag) is not None:
                        st.timeout(tag)
                    elif kind == 'resp-mine' and tag is not None and st.pending_of(tag) is not None:
                        st.respond_pending(st.pending_of(tag))
                    elif kind == 'resp' and ev[1] < len(st.open_pending()):
                        st.respond(ev[1])
                    elif kind == 'resp-tag' and st.pending_of(ev[1]) is not None:
                        st.respond_pending(st.pending_of(ev[1]))
                    elif kind == 'task' and ev[1] < len(st.w.tasks):
                        st.run_task(ev[1], ev[2])
                    elif kind == 'shutdown':
                        st.pool.shutdown()
                    elif kind == 'defunct' and not st.w.conns[ev[1]].is_closed and not st.w.conns[ev[1]].is_defunct:
                        st.defunct(ev[1])
                    elif kind in ('unwritable', 'writable'):
                        st.set_writable(ev[1], kind == 'writable')
                    elif kind in ('defunct', 'timeout', 'timeout-mine', 'resp-mine', 'resp', 'resp-tag', 'task'):
                        st.skipped += 1
                        part.count('script_events_not_possible')
                    else:
                        raise explore.HarnessError('unknown script event %r' % (ev,))
                    st.note_state()
            finally:
                ctl['active'] -= 1

        n = {}
        for t in threads:
            n[t] = n.get(t, 0) + 1
            name = '%s%d' % (t, n[t])
            if t == 'script':
                s.spawn(functools.partial(script, list(p.get('script' if n[t] == 1 else 'script%d' % n[t], ()))), name)
            elif t == 'client':
                s.spawn(client, name)
            elif t == 'shutdown':
                s.spawn(shutdown, name)
            elif t == 'timer':
                s.spawn(timer, name)
            elif t == 'reactor':
                s.spawn(loop('reactor', reactor_actions, do_reactor), name)
            elif t == 'worker':
                s.spawn(loop('worker', lambda: len(st.w.tasks), do_task), name)
            else:
                raise explore.HarnessError('unknown thread kind %r' % t)
        s.run(watchdog=float(p.get("watchdog", 180.0)))   # generous: on a heavily loaded machine all workers can be starved for many seconds
        data = {'params': params, 'prefix': s.choices()}
        if s.failure:
            part.violation('%s/%s/%s' % (p['prop'], s.failure[0], cls), '%s' % (s.failure[1],), data)
            part.outcome(('failure', s.failure[0]))
            return s
        for t in s.threads:
            if t.exc is not None:
                part.violation('%s/thread-exception/%s/%s' % (p['prop'], cls, type(t.exc).__name__),
                               '%r in %s\n%s' % (t.exc, t.name, getattr(t, 'exc_tb', '')), data)
        # the threads are gone: judge, then let everything finish single-threaded and judge the end
        mid = st.outcome()
        told = [0]

        def report_invariants():
            # whatever the hooks recorded since the last call + the clauses judged on the state as it is now
            f = st.invariant_findings()
            n = len(st.problems)
            report(p, part, data, f[told[0]:])
            told[0] = n

        report_invariants()
        for ev in p.get('epilogue', ()):
            ev = tuple(ev)
            if ((ev[0] == 'task' and len(st.w.tasks) <= ev[1]) or (ev[0] == 'timeout' and st.timer_of(ev[1]) is None)
                    or (ev[0] in ('resp', 'resp-retry') and len(st.open_pending()) <= ev[1])):
                st.skipped += 1
                part.count('epilogue_events_not_possible')
                continue
            apply_event(st, ev)
            report_invariants()
            report(p, part, data, st.replacement_findings())
        if p.get('shutdown_at_end') and not st.pool.is_shutdown:
            # no thread shuts this pool down: it is shut down now, with whatever the threads left pending
            apply_event(st, ('shutdown',))
            report_invariants()
        if st.pool.is_shutdown:
            report(p, part, data, st.borrow_after_shutdown_findings())
            report(p, part, data, st.end_findings(drain))
            part.count('end_states_judged')
        else:
            st.drain(drain)
        st.note_state()
        report_invariants()
        report(p, part, data, st.replacement_findings())
        if st.n_late_timeout:
            part.count('executions_with_a_timeout_of_an_already_answered_request')
        if st.n_waiters_at_shutdown:
            part.count('executions_with_a_borrower_waiting_for_a_slot_when_shutdown_returned')
        part.outcome((mid, st.outcome()) + (('late-timeouts=%d' % st.n_late_timeout,) if p.get('timer_tags') else ()))
        if any(pt.chosen for pt in s.trace):
            part.mark_nontrivial(repr((p.get('stage'), threads, s.choices())))
        part.sample({'threads': threads, 'stage': p.get('stage'), 'choices': s.choices(), 'end': st.outcome()}, limit=1)
        return s
    finally:
        st.close()


# ====================================================================== drivers (one fork pool for all configurations)
def run_e(ctx, configs, label_prefix, max_states=None):
    """explore.bfs for several configurations in lockstep: the frontiers of all configurations are
    expanded by one pool.map per depth level (a level of a single small configuration cannot keep 16
    workers busy).  Same semantics as explore.bfs: breadth-first, canonical-state dedup per
    configuration, invariants in every state, a violation believed only if it replays identically."""
    from vt.core import Part, jsonable
    h0 = {}
    for name, params, depth in configs:
        h = PoolHarness(params)
        part0 = Part()
        st = explore.build(h, [])
        try:
            h.check(st, part0, [])
            evs0 = h.events(st)
            if h.is_quiescent(st, evs0):
                h.at_quiescence(st, part0, [])
            k0 = explore._key(h.canon(st))
        finally:
            h.cleanup(st)
        ctx.merge(part0)
        h0[name] = {'params': params, 'max_depth': depth, 'seen': {k0}, 'frontier': [([], 0)], 'states': 1, 'transitions': 0,
                    'depth': 0, 'capped': False}
    pool = explore.get_pool(ctx.nproc)
    level = 0
    while True:
        active = [n for n, _, _ in configs if h0[n]['frontier'] and h0[n]['depth'] < h0[n]['max_depth'] and not h0[n]['capped']]
        if not active:
            break
        level += 1
        total = sum(len(h0[n]['frontier']) for n in active)
        size = max(1, -(-total // (ctx.nproc * 4)))
        jobs, owner = [], []
        for n in active:
            c = h0[n]
            c['depth'] += 1
            fr = ctx.rotate(c['frontier']) if c['depth'] == 1 else c['frontier']
            for i in range(0, len(fr), size):
                jobs.append((PoolHarness, c['params'], fr[i:i + size], None, True))
                owner.append(n)
        if pool is not None and len(jobs) > 1:
            results = pool.map(explore._expand_guarded, jobs, 1)
        else:
            results = [explore._expand(j) for j in jobs]
        children = dict((n, []) for n in active)
        for n, (part, out) in zip(owner, results):
            ctx.merge(part)
            children[n].extend(out)
        for n in active:
            c = h0[n]
            kids = children[n]
            kids.sort(key=lambda x: repr(x[0]))          # deterministic order whatever the batching
            nxt = []
            for child, k, cost in kids:
                c['transitions'] += 1
                if k in c['seen']:
                    continue
                c['seen'].add(k)
                c['states'] += 1
                nxt.append((child, cost))
                if len(ctx.samples) < 3 and len(child) >= min(3, c['max_depth']):
                    ctx.sample({'harness': label_prefix + n, 'history': child})
            if max_states is not None and c['states'] > max_states:
                c['capped'] = True
                ctx.cap('%s%s: state cap %d reached at depth %d' % (label_prefix, n, max_states, c['depth']))
            c['frontier'] = nxt
    for n, _, _ in configs:
        c = h0[n]
        ctx.count('states', c['states'])
        ctx.count('executions', c['transitions'])
        ctx.cov.setdefault('harnesses', {})[label_prefix + n] = {
            'params': jsonable(c['params']), 'max_depth': c['max_depth'], 'depth_reached': c['depth'], 'states': c['states'],
            'transitions': c['transitions'], 'deviation_bound': None,
            'frontier_left': len(c['frontier']) if c['depth'] >= c['max_depth'] else 0, 'complete_to_depth': not c['capped']}


def _s_unit(args):
    """explore the subtree of schedules below one choice prefix (all executions within the bound)"""
    import importlib
    from vt import sched
    from vt.core import Part
    modname, params, prefix, bound, cap, only_base = args
    fn = importlib.import_module(modname).s_harness
    part = Part()
    n = maxpts = 0
    kids_out = []
    stack = [list(prefix)]
    while stack:
        pf = stack.pop()
        s = fn(params, pf, part)
        n += 1
        part.count('executions')
        part.count('transitions', s.steps)
        maxpts = max(maxpts, len(s.trace))
        kids = [k for k, _ in sched.children(s.trace, len(pf), bound)]
        if only_base:
            kids_out = kids
            break
        if cap is not None and n + len(stack) + len(kids) > cap:
            part.cap('subtree below prefix of length %d cut at %d executions' % (len(prefix), cap))
            break
        stack.extend(reversed(kids))
    return part, n, maxpts, kids_out


def run_s(ctx, modname, configs, label_prefix, max_executions=None):
    """sched.explore for several configurations with two fork pools in all: the default schedule of
    every configuration first, then every subtree below a first deviation as one unit of work."""
    from vt.core import jsonable
    base = ctx.pmap(_s_unit, [(modname, params, [], bound, None, True) for _, params, bound in configs])
    units, owner = [], []
    info = {}
    for (name, params, bound), (part, n, maxpts, kids) in zip(configs, base):
        ctx.merge(part)
        info[name] = {'params': jsonable(params), 'preemption_bound': bound, 'executions': n, 'max_choice_points': maxpts,
                      'complete': True}
        cap = max_executions           # per subtree: a guard against an explosion, not a budget split
        for k in kids:
            units.append((modname, params, k, bound, cap, False))
            owner.append(name)
    for name, (part, n, maxpts, _) in zip(owner, ctx.pmap(_s_unit, units)):
        ctx.merge(part)
        info[name]['executions'] += n
        info[name]['max_choice_points'] = max(info[name]['max_choice_points'], maxpts)
        if part.caps:
            info[name]['complete'] = False
    for name, _, _ in configs:
        ctx.cov.setdefault('harnesses', {})[label_prefix + name] = info[name]
