"""Engine E: explicit-state breadth-first search over event / fault histories.

A state is the event history that reaches it.  Every transition rebuilds a fresh world with
harness.init() and replays the history by calling harness.apply() (which calls the *real*
driver handlers), then applies one more enabled event.  States are deduplicated on
harness.canon(); invariants are evaluated in every state, end-state conditions in every
quiescent state.  Deviation bounding: events carry a cost, histories are limited to a total.
"""
import hashlib
import multiprocessing
import sys
import traceback

from vt.core import HarnessError, Part, jsonable
from vt.vthreading import WouldBlock


class Harness(object):
    """Subclass and override.  Event descriptors must be plain data (tuples of str/int) that are
    meaningful in a rebuilt world (indices, ids), never object references."""
    name = 'harness'

    def __init__(self, params):
        self.params = params

    def init(self):
        raise NotImplementedError

    def events(self, st):
        """-> list of (event, cost) enabled in st, deterministic order"""
        raise NotImplementedError

    def apply(self, st, ev):
        raise NotImplementedError

    def canon(self, st):
        raise NotImplementedError

    def check(self, st, part, hist):
        """invariants, every state"""

    def at_quiescence(self, st, part, hist):
        """end-state conditions; called when is_quiescent(st)"""

    def is_quiescent(self, st, evs):
        return not evs

    def cleanup(self, st):
        if hasattr(st, 'close'):
            st.close()


def _key(canon):
    return hashlib.blake2b(repr(canon).encode(), digest_size=12).digest()


def build(h, hist):
    st = h.init()
    try:
        for ev in hist:
            h.apply(st, ev)
    except BaseException:
        h.cleanup(st)
        raise
    return st


_POOL = [None, 0]


def get_pool(nproc):
    """One fork pool per process, shared by every bfs() call of a check run (harness classes travel
    by reference, so they must be module-level classes of an importable module)."""
    if nproc <= 1:
        return None
    if _POOL[0] is None or _POOL[1] != nproc:
        close_pool()
        import gc
        gc.freeze()
        _POOL[0] = multiprocessing.get_context('fork').Pool(nproc)
        _POOL[1] = nproc
        import atexit
        atexit.register(close_pool)
    return _POOL[0]


def close_pool():
    if _POOL[0] is not None:
        _POOL[0].terminate()
        _POOL[0].join()
        _POOL[0] = None


def _expand(args):
    """Expand a batch of states: returns (Part, [(child_hist, key, cost)])."""
    hcls, params, batch, dev_bound, check_replay = args
    h = hcls(params)
    part = Part()
    out = []
    for hist, cost in batch:
        hist = list(hist)
        st = build(h, hist)
        try:
            evs = h.events(st)
        finally:
            h.cleanup(st)
        part.count('expanded')
        for ev, c in evs:
            if dev_bound is not None and cost + c > dev_bound:
                part.count('pruned_by_deviation_bound')
                continue
            child = hist + [ev]
            try:
                st2 = build(h, child)
            except WouldBlock as e:
                raise HarnessError('WouldBlock while replaying %r: %s' % (child, e))
            try:
                part.count('transitions')
                nv = len(part.violations)
                h.check(st2, part, child)
                evs2 = h.events(st2)
                if h.is_quiescent(st2, evs2):
                    part.count('quiescent_states')
                    h.at_quiescence(st2, part, child)
                k = _key(h.canon(st2))
                if len(part.violations) > nv and check_replay:
                    # a violation must reproduce identically before it is believed
                    st3 = build(h, child)
                    try:
                        p2 = Part()
                        h.check(st3, p2, child)
                        if h.is_quiescent(st3, h.events(st3)):
                            h.at_quiescence(st3, p2, child)
                        k3 = _key(h.canon(st3))
                    finally:
                        h.cleanup(st3)
                    fp1 = sorted(v[0] for v in part.violations[nv:])
                    fp2 = sorted(v[0] for v in p2.violations)
                    if k3 != k or not set(fp1) <= set(fp2):
                        raise HarnessError('nondeterministic replay of %r: %r vs %r' % (child, fp1, fp2))
            finally:
                h.cleanup(st2)
            out.append((child, k, cost + c))
    return part, out


def _expand_guarded(args):
    try:
        return _expand(args)
    except BaseException:
        sys.stderr.write('HARNESS ERROR in explore worker\n%s\n' % traceback.format_exc())
        sys.stderr.flush()
        raise


def bfs(ctx, harness_cls, params, max_depth, dev_bound=None, max_states=None, label=None):
    """Breadth-first exploration.  Returns dict with counts."""
    hname = label or harness_cls.name
    h = harness_cls(params)
    part0 = Part()
    st = build(h, [])
    try:
        h.check(st, part0, [])
        evs0 = h.events(st)
        if h.is_quiescent(st, evs0):
            h.at_quiescence(st, part0, [])
        k0 = _key(h.canon(st))
    finally:
        h.cleanup(st)
    ctx.merge(part0)
    seen = {k0}
    frontier = [([], 0)]
    states, transitions, depth = 1, 0, 0
    capped = False
    pool = get_pool(ctx.nproc)
    if True:
        while frontier and depth < max_depth:
            depth += 1
            frontier = ctx.rotate(frontier) if depth == 1 else frontier
            nb = max(1, min(len(frontier), ctx.nproc * 4))
            batches = [frontier[i::nb] for i in range(nb)]
            jobs = [(harness_cls, params, b, dev_bound, True) for b in batches if b]
            if pool is not None and len(jobs) > 1:
                results = pool.map(_expand_guarded, jobs, 1)
            else:
                results = [_expand(j) for j in jobs]
            nxt = []
            children = []
            for part, out in results:
                ctx.merge(part)
                children.extend(out)
            children.sort(key=lambda c: repr(c[0]))     # deterministic order whatever the batching
            for child, k, cost in children:
                transitions += 1
                if k in seen:
                    continue
                seen.add(k)
                states += 1
                nxt.append((child, cost))
                if len(ctx.samples) < 3 and len(child) >= min(3, max_depth):
                    ctx.sample({'harness': hname, 'history': child})
            if max_states is not None and states > max_states:
                capped = True
                ctx.cap('%s: state cap %d reached at depth %d' % (hname, max_states, depth))
                break
            frontier = nxt
    ctx.count('states', states)
    ctx.count('executions', transitions)
    info = {'params': jsonable(params), 'max_depth': max_depth, 'depth_reached': depth, 'states': states,
            'transitions': transitions, 'deviation_bound': dev_bound,
            'frontier_left': len(frontier) if depth >= max_depth else 0, 'complete_to_depth': not capped}
    ctx.cov.setdefault('harnesses', {})[hname] = info
    return info


def replay(harness_cls, params, hist):
    """Re-run one history; returns the Part with whatever the monitors report."""
    h = harness_cls(params)
    part = Part()
    for i in range(len(hist) + 1):
        st = build(h, hist[:i])
        try:
            h.check(st, part, hist[:i])
            if i == len(hist) and h.is_quiescent(st, h.events(st)):
                h.at_quiescence(st, part, hist)
        finally:
            h.cleanup(st)
    return part


# ---------------------------------------------------------------------- self test
class _ToyH(Harness):
    """two counters incremented to 2; invariant a+b != 3 must be found violated at depth 3"""
    name = 'toy'

    def init(self):
        return {'a': 0, 'b': 0}

    def events(self, st):
        return [((k,), 0) for k in ('a', 'b') if st[k] < 2]

    def apply(self, st, ev):
        st[ev[0]] += 1

    def canon(self, st):
        return (st['a'], st['b'])

    def check(self, st, part, hist):
        if st['a'] + st['b'] == 3:
            part.violation('toy/sum3', 'sum 3 reached', {'history': hist})

    def cleanup(self, st):
        pass


def selftest():
    from vt.core import Ctx
    ctx = Ctx('SELFTEST', silent=True)
    ctx.nproc = 1
    info = bfs(ctx, _ToyH, {}, max_depth=4)
    ok = info['states'] == 9 and 'toy/sum3' in ctx._viol
    if not ok:
        print('explore selftest failed', info, list(ctx._viol))
    return ok
