"""World pieces for C44 (idle-connection heartbeats): a scripted server, connection holders that
record `return_connection`, an instrumented Event (maps HeartbeatFuture waits to connections), a
log spy, and the two executors:

  * run_history(params)            engine E layer: the real ConnectionHeartbeat.run executed in the
                                   single thread of control; one "interval" = the timed wait of
                                   `_shutdown_event` timing out; the per-round situation of every
                                   connection and the server's answer to every heartbeat are given.
  * run_schedule(params, prefix)   engine S layer: heartbeat thread + reactor thread + client thread
                                   (+ the thread that finally calls stop()) under vt.sched.

Nothing here decides what is right: the judgements live in the `judge_*` functions, which use only
the facts recorded by the harness (bytes on the wire parsed by the independent codec, flags of the
connection objects, calls received by the holders) and the statement of the property.
"""
import collections

from vt import sched, vthreading
from vt.vthreading import RT, VEvent
from vt.world import vworld, wire
from vt.world.vworld import World, VServer, HostSpec, VConnection
from vt.core import HarnessError

import cassandra.connection as cconn
from cassandra.connection import (ConnectionHeartbeat, HeartbeatFuture, Connection, ConnectionException)
from cassandra.protocol import QueryMessage

INTERVAL = 30.0
TIMEOUT = 5.0

SEND_STATES = ('idle', 'pending')                 # a heartbeat is due and can be sent
REPLIES = ('supported', 'error', 'ready', 'silence', 'conn_error', 'peer_close')
FAIL_REPLIES = ('error', 'ready', 'silence', 'conn_error', 'peer_close')
QUIET_STATES = ('busy', 'event')                  # traffic during the interval: no heartbeat
CANT_SEND = ('full', 'unwritable')                # a heartbeat is due but cannot be put on the wire
DEAD_STATES = ('defunct', 'closed')


# ---------------------------------------------------------------------------- instrumentation
class _Cur(object):
    x = None        # the execution in progress (E or S)


class HBEvent(VEvent):
    """cassandra.connection.Event during a C44 execution.  threading.Event.wait(t) with t < 0 returns at
    once (the heartbeat loop passes `timeout - elapsed`, which goes negative after a silent connection);
    the virtual primitive treats a negative timeout as 'no timeout', so it is clamped here."""

    def __init__(self):
        VEvent.__init__(self)
        x = _Cur.x
        if x is not None:
            x.last_event = self

    def wait(self, timeout=None):
        if timeout is not None and timeout < 0:
            timeout = 0
        x = _Cur.x
        if x is not None:
            if x.no_more_intervals(self):
                timeout = None      # environment: stop() is called before another interval elapses
            x.on_wait_begin(self, timeout)
        r = self._wait_labelled(timeout, x.wait_label(self) if x is not None else 'Event.wait')
        if x is not None:
            x.on_wait_end(self, r)
        return r

    def _wait_labelled(self, timeout, label):
        # VEvent.wait with a label that tells the heartbeat's waits apart in the scheduler's trace
        s = RT.sched
        if s is not None:
            s.point('event.wait', self)
        if self._flag:
            return True
        return vthreading._wait(lambda: self._flag, timeout, label)


class LogSpy(object):
    """Stands in for cassandra.connection.log: keeps what the heartbeat loop swallowed."""

    def __init__(self):
        self.errors = []

    def _noop(self, *a, **k):
        pass

    debug = info = warning = warn = _noop

    def isEnabledFor(self, *_):
        return False

    def error(self, msg, *a, **k):
        import sys
        e = sys.exc_info()[1]
        self.errors.append(('error', str(msg)[:80], repr(e)[:200] if e is not None else None))

    def exception(self, msg, *a, **k):
        import sys
        e = sys.exc_info()[1]
        self.errors.append(('exception', str(msg)[:80], repr(e)[:200] if e is not None else None))

    critical = error


def _virtual_heartbeat_class():
    """`class ConnectionHeartbeat(Thread)` took threading.Thread as its base when the driver module was
    imported; the same class body (identical function objects: __init__, run, stop, _raise_if_stopped) is
    re-based on the virtual thread class, which is what the module-level name `Thread` used inside
    __init__ now denotes."""
    ns = {k: v for k, v in ConnectionHeartbeat.__dict__.items() if k not in ('__dict__', '__weakref__')}
    return type('ConnectionHeartbeat', (vthreading.VThread,), ns)


VHeartbeat = _virtual_heartbeat_class()


class HarnessHeartbeat(VHeartbeat):
    """registers itself with the execution before the real __init__ starts the thread"""

    def __init__(self, x, *a, **k):
        x.hb = self
        VHeartbeat.__init__(self, *a, **k)


class SmallConn(VConnection):
    """Real connection with a small stream-id space (public tunable), so that 'at capacity' is reachable
    with real requests and a leaked unit of capacity is a large fraction of the whole."""
    max_in_flight = 4
    fed = 0

    def feed(self, data):
        self.fed += 1              # frames the reactor handed to this connection (harness-side traffic meter)
        VConnection.feed(self, data)


class Holder(object):
    """What ConnectionHeartbeat needs from a pool / the control connection."""
    shutdown_on_error = False

    def __init__(self, name, x):
        self.name, self.x = name, x
        self.conns = []

    def get_connections(self):
        return list(self.conns)

    def return_connection(self, connection):
        self.x.returned.append((self.x.round, connection.vid, self.name))


class Fault(object):
    """outbox entry: what the reactor does when the socket fails / the peer closes."""

    def __init__(self, conn, kind):
        self.conn, self.kind = conn, kind

    def feed(self, data):
        inject_fault(self.conn, self.kind)


def inject_fault(conn, kind):
    if kind == 'conn_error':
        conn.defunct(ConnectionException('injected socket error', conn.endpoint))
    else:
        conn.close()


class ScriptServer(VServer):
    """After the handshakes every request is handed to `script(p)`, which answers, holds or faults."""

    def __init__(self, *a, **k):
        VServer.__init__(self, *a, **k)
        self.script = None

    def answer(self, p, deliver=False):
        if self.script is not None and self.script(p):
            return
        VServer.answer(self, p, deliver=deliver)


def reply_now(srv, p, kind, deliver=False):
    """Queue (or deliver) the server's answer of the given kind to the held / arriving request p."""
    if kind == 'supported':
        VServer.answer(srv, p, deliver=deliver)
    elif kind == 'error':
        srv.respond(p, wire.OP_ERROR, wire.error(wire.ERR_SERVER, 'boom'), deliver=deliver)
    elif kind == 'ready':
        srv.respond(p, wire.OP_READY, b'', deliver=deliver)
    elif kind in ('conn_error', 'peer_close'):
        p.answered = True
        if p in srv.pending:
            srv.pending.remove(p)
        if deliver:
            inject_fault(p.conn, kind)
        else:
            srv.outbox.append((Fault(p.conn, kind), b''))
    else:
        raise HarnessError('unknown reply kind %r' % (kind,))


class ClientReq(object):
    def __init__(self, conn, rid):
        self.conn, self.rid, self.result = conn, rid, None
        self.done = False


def client_send(x, conn, query):
    """What a pool user does: take a stream id under the connection lock (HostConnection.borrow_connection),
    send, and give the unit of capacity back when the response (or connection error) arrives
    (HostConnection.return_connection)."""
    with conn.lock:
        if not conn.in_flight < conn.max_request_id:
            raise HarnessError('client_send on a connection at capacity')
        conn.in_flight += 1
        rid = conn.get_request_id()
    req = ClientReq(conn, rid)

    def cb(resp):
        with conn.lock:
            conn.in_flight -= 1
        req.result, req.done = resp, True
    x.client_reqs.append(req)
    conn.send_msg(QueryMessage(query, 1), rid, cb)
    return req


def dead(conn):
    return bool(conn.is_defunct or conn.is_closed)


def capacity(conn):
    return (conn.in_flight, tuple(sorted(conn.request_ids)))


class Seams(object):
    """cassandra.connection names rebound for one execution."""

    def __init__(self):
        self.spy = LogSpy()

    def __enter__(self):
        self.saved = (cconn.Event, cconn.log)
        cconn.Event, cconn.log = HBEvent, self.spy
        return self

    def __exit__(self, *a):
        cconn.Event, cconn.log = self.saved


# ---------------------------------------------------------------------------- engine E layer
class HistExec(object):
    """One event history: params = {'conns': [{'holder': 0|1, 'control': bool, 'rounds': [[state, reply], ...]}],
    'lifo': bool}.  Round 0 is implicit: every connection has just finished its handshake (= received
    traffic during the first interval)."""

    def __init__(self, params):
        self.params = params
        self.round = -1                 # index of the round in progress (0 = warm-up)
        self.returned = []              # (round, conn vid, holder name)
        self.client_reqs = []
        self.last_event = None
        self.problems = []              # (fingerprint tail, text)
        self.facts = []                 # per judged round, per connection: coarse observation
        self.flags = set()              # non-vacuity marks

    # -- HBEvent callbacks (unused in this layer except for the timeout mark)
    def no_more_intervals(self, ev):
        return False

    def wait_label(self, ev):
        return 'Event.wait'

    def on_wait_begin(self, ev, timeout):
        if self.hb is not None and ev is getattr(self.hb, '_shutdown_event', None):
            self.fed_round_end = [c.fed for c in self.conns]      # a round (or the thread's start-up) ends here

    def on_wait_end(self, ev, r):
        if not r and self.hb is not None and ev is not self.hb._shutdown_event:
            self.flags.add('timeout')

    def problem(self, tail, text):
        self.problems.append((tail, text))

    # -- the server's script
    def script(self, p):
        op = p.req['op']
        if op == 'OPTIONS':
            spec = self.spec_of.get(p.conn.vid)
            rnd = self.round
            self.options_seen.append((rnd, p.conn.vid))
            if spec is None or rnd < 1 or rnd > self.nrounds:
                return False
            kind = spec['rounds'][rnd - 1][1]
            if kind == 'silence':
                self.srv.pending.append(p)
                return True
            reply_now(self.srv, p, kind)
            return True
        if op == 'QUERY' and p.req.get('query') == 'hold':
            self.srv.pending.append(p)
            return True
        return False

    # -- the interval between two rounds (called by the heartbeat thread through get_connection_holders)
    def holders_fn(self):
        self.round += 1
        k = self.round
        # "each interval": a round starts no later than one interval (+ the wait budget of the previous round) after
        # the previous one started
        now = self.w.clock.now
        prev = getattr(self, 'round_started', None)
        if prev is not None and now - prev > INTERVAL + TIMEOUT + 0.1:
            self.problem('interval-length', 'round %d started %.3f s after round %d (interval %.0f s, timeout %.0f s)' % (
                k, now - prev, k - 1, INTERVAL, TIMEOUT))
        if prev is None and now - self.t0 > INTERVAL + 0.1:
            self.problem('interval-length', 'first round started %.3f s after the thread (interval %.0f s)' % (now - self.t0, INTERVAL))
        self.round_started = now
        if k >= 1:
            self.judge_round(k - 1)
        if k > self.nrounds:
            # stop() is called during this interval; the rest of stop() (join) follows run()
            self.hb._shutdown_event.set()
            return []
        if k >= 1:
            for c, spec in zip(self.conns, self.params['conns']):
                self.prepare(c, spec['rounds'][k - 1][0])
        # traffic meter: frames received during the interval that just elapsed, and frames received during the previous
        # round beyond the answer to that round's own heartbeat (e.g. a real cluster refreshing its node list)
        fed_now = [c.fed for c in self.conns]
        prev_fed = getattr(self, 'fed_at_hook', fed_now)
        self.traffic = [b > a for a, b in zip(self.fed_round_end, fed_now)]
        self.stray = [(e - a) for a, e in zip(prev_fed, self.fed_round_end)]
        self.fed_at_hook = fed_now
        self.pre = [(dead(c), capacity(c), len(c.pushed), self.outstanding(c)) for c in self.conns]
        self.options_mark = len(self.options_seen)
        self.returned_mark = len(self.returned)
        if params_sabotage(self, k):
            self.conns[0].in_flight += 1
        return self.get_holders()

    def outstanding(self, c):
        return sorted(r.rid for r in self.client_reqs if r.conn is c and not r.done)

    def prepare(self, c, state):
        """What happened on connection c during the interval that just elapsed."""
        if dead(c):
            return
        w, srv = self.w, self.srv
        if state == 'idle':
            pass
        elif state == 'busy':
            held = [p for p in srv.pending if p.conn is c and p.req['op'] == 'QUERY']
            if c.in_flight < c.max_request_id:
                self.send(c, 'now')
            elif held:
                VServer.answer(srv, held[0])
            else:
                raise HarnessError('busy: neither capacity nor a held request')
            w.deliver_outbox()
        elif state == 'pending':
            if c.in_flight < c.max_request_id:
                self.send(c, 'hold')
        elif state == 'event':
            srv.push_event(c, wire.event_status('UP', '10.0.0.9'))
        elif state == 'full':
            while c.in_flight < c.max_request_id:
                self.send(c, 'hold')
        elif state == 'unwritable':
            c._socket_writable = False          # what the libev reactor sets when its write buffer is over the limit
        elif state == 'defunct':
            c.defunct(ConnectionException('injected before the round', c.endpoint))
        elif state == 'closed':
            c.close()
        else:
            raise HarnessError('unknown state %r' % (state,))

    # -- judgement of one finished round (independent of the driver: spec of the property only)
    def judge_round(self, k):
        specs = self.params['conns']
        self.this_round = {}
        for i, c in enumerate(self.conns):
            was_dead, cap0, pushed0, out0 = self.pre[i]
            state, reply = ('fresh', None) if k == 0 else tuple(specs[i]['rounds'][k - 1])
            n_opt = sum(1 for (r, vid) in self.options_seen[self.options_mark:] if vid == c.vid)
            n_ret = sum(1 for (r, vid, _) in self.returned[self.returned_mark:] if vid == c.vid)
            now_dead = dead(c)
            cap1 = capacity(c)
            tag = 'r%d c%d %s/%s' % (k, i, state, reply)
            fact = None
            # the situation as the harness measured it (the scripted one, corrected by the traffic meter)
            answered_prev = 0
            if k >= 1 and getattr(self, 'last_round', None) is not None:
                answered_prev = self.last_round.get(i, 0)
            stray = self.stray[i] - answered_prev > 0 if k >= 1 else False
            if not was_dead and state in QUIET_STATES and not self.traffic[i]:
                raise HarnessError('%s: the interval was meant to carry traffic but no frame reached the connection' % tag)
            if not was_dead and state not in ('fresh',) + QUIET_STATES and self.traffic[i]:
                state = 'busy'            # traffic nobody scripted (real cluster housekeeping)
            elif not was_dead and state in SEND_STATES and cap0[0] >= c.max_request_id:
                state = 'full'            # the outstanding requests have used up the stream ids
            if was_dead:
                fact = 'dead-before'
                if n_opt:
                    self.problem('options-on-dead-connection', '%s: %d OPTIONS sent on a defunct/closed connection' % (tag, n_opt))
            elif stray and state not in ('fresh',) + QUIET_STATES and n_opt == 0:
                # frames arrived during the previous round after the connection may already have been examined:
                # whether that counts as traffic "during the interval" is not decided by the statement
                fact = 'ambiguous-traffic'
                if now_dead:
                    self.problem('busy-connection-killed/stray', '%s: connection defunct/closed after the round' % tag)
                elif cap1 != cap0:
                    self.problem('capacity-changed/busy', '%s: (in_flight, free ids) %r -> %r' % (tag, cap0, cap1))
            elif state in ('fresh',) + QUIET_STATES:
                fact = 'quiet'
                self.flags.add('fresh' if state == 'fresh' else 'busy')
                if n_opt:
                    self.problem('heartbeat-on-busy-connection/%s' % state,
                                 '%s: %d OPTIONS sent although the connection received traffic during the interval' % (tag, n_opt))
                if now_dead:
                    self.problem('busy-connection-killed/%s' % state, '%s: connection defunct/closed after the round' % tag)
                elif cap1 != cap0:
                    self.problem('capacity-changed/busy', '%s: (in_flight, free ids) %r -> %r' % (tag, cap0, cap1))
                if n_ret:
                    self.problem('owner-notified-without-failure/%s' % state, '%s: return_connection called %d times' % (tag, n_ret))
            elif state in CANT_SEND:
                self.flags.add('cant_send')
                if n_opt:
                    self.problem('options-beyond-capacity/%s' % state, '%s: %d OPTIONS on the wire' % (tag, n_opt))
                if now_dead:
                    fact = 'cant-send-failed'
                    if n_ret != 1:
                        self.problem('owner-notifications/%s/%d' % (state, min(n_ret, 2)),
                                     '%s: connection failed but return_connection called %d times' % (tag, n_ret))
                else:
                    fact = 'cant-send-skipped'
                    if cap1 != cap0:
                        self.problem('capacity-changed/%s' % state, '%s: left open with (in_flight, free ids) %r -> %r' % (tag, cap0, cap1))
                    if n_ret:
                        self.problem('owner-notified-without-failure/%s' % state, '%s: return_connection called %d times' % (tag, n_ret))
            elif state in SEND_STATES:
                if n_opt != 1:
                    self.problem('heartbeats-per-interval/%s/%d' % (state, min(n_opt, 2)),
                                 '%s: idle open connection got %d OPTIONS in the round' % (tag, n_opt))
                if state == 'pending':
                    self.flags.add('in_flight_request')
                if reply == 'supported':
                    fact = 'ok'
                    if now_dead:
                        self.problem('answered-connection-killed', '%s: heartbeat answered in time but the connection is defunct/closed' % tag)
                    elif n_opt == 1 and cap1 != cap0:
                        self.problem('capacity-changed/success', '%s: (in_flight, free ids) %r -> %r' % (tag, cap0, cap1))
                    if n_ret:
                        self.problem('owner-notified-without-failure/success', '%s: return_connection called %d times' % (tag, n_ret))
                elif n_opt == 1:
                    fact = 'failed:' + reply
                    self.flags.add('failure' if reply != 'silence' else 'timeout_failure')
                    if not now_dead:
                        self.problem('failed-not-defunct/%s' % reply, '%s: heartbeat failed (%s) but the connection is still open' % (tag, reply))
                    elif reply != 'peer_close' and not c.is_defunct:
                        self.problem('failed-not-defunct/%s' % reply, '%s: closed but not marked defunct' % tag)
                    if n_ret != 1:
                        self.problem('owner-notifications/%s/%d' % (reply, min(n_ret, 2)),
                                     '%s: heartbeat failed (%s), return_connection called %d times' % (tag, reply, n_ret))
            else:
                raise HarnessError('state %r' % (state,))
            # accounting of every open connection, whatever happened: in_flight = requests really outstanding,
            # free ids + outstanding ids = all ids handed out so far, no duplicates
            if not now_dead:
                out1 = self.outstanding(c)
                ids = sorted(list(c.request_ids) + out1)
                if c.in_flight != len(out1):
                    self.problem('in-flight-accounting', '%s: in_flight=%d with %d requests outstanding' % (tag, c.in_flight, len(out1)))
                if ids != list(range(c.highest_request_id + 1)):
                    self.problem('stream-id-accounting', '%s: free %r + outstanding %r != 0..%d' % (
                        tag, sorted(c.request_ids), out1, c.highest_request_id))
            self.facts.append((k, i, fact))
            self.this_round[i] = 1 if (n_opt and reply in ('supported', 'error', 'ready')) else 0
        self.last_round = self.this_round

    def send(self, c, query):
        return client_send(self, c, query)

    def make_server(self):
        return ScriptServer([HostSpec('10.0.0.1')])

    def setup(self):
        params, w, srv = self.params, self.w, self.srv
        if params.get('lifo'):
            srv.outbox = _Lifo()
        self.holders = [Holder('pool', self), Holder('control', self)]
        self.conns = []
        for spec in params['conns']:
            c = SmallConn('10.0.0.1', protocol_version=4, is_control_connection=bool(spec.get('control')))
            w.pump()
            if not c.connected_event.is_set() or dead(c) or c.in_flight:
                raise HarnessError('handshake failed: %r' % (c.last_error,))
            self.conns.append(c)
            self.holders[spec['holder']].conns.append(c)

    def get_holders(self):
        return list(self.holders)

    def teardown(self):
        pass

    # -- run
    def run(self):
        params = self.params
        specs = params['conns']
        self.nrounds = len(specs[0]['rounds'])
        self.hb = None
        self.options_seen = []
        srv = self.srv = self.make_server()
        w = self.w = World(srv)
        _Cur.x = self
        try:
            with w, Seams() as seams:
                self.spy = seams.spy
                self.setup()
                self.spec_of = {c.vid: s for c, s in zip(self.conns, specs)}
                srv.script = self.script
                self.t0 = t0 = w.clock.now
                self.hb = hb = HarnessHeartbeat(self, INTERVAL, self.holders_fn, TIMEOUT)
                if hb not in w.thread_tasks:
                    raise HarnessError('heartbeat thread was not started')
                try:
                    w.run_thread_task(list(w.thread_tasks).index(hb))   # ConnectionHeartbeat.run in this thread of control
                except vthreading.WouldBlock as e:
                    self.problem('blocked', 'heartbeat thread blocked for ever: %s' % e)
                except Exception as e:
                    self.problem('thread-died/%s' % type(e).__name__, 'ConnectionHeartbeat.run raised %r' % (e,))
                if self.round != self.nrounds + 1 and not self.problems:
                    self.problem('rounds', 'heartbeat thread made %d rounds, %d expected' % (self.round, self.nrounds + 1))
                try:
                    hb.stop()
                except vthreading.WouldBlock as e:
                    self.problem('stop-blocked', 'stop() does not return: %s' % e)
                if hb.is_alive():
                    self.problem('not-stopped', 'thread still alive after stop()')
                self.elapsed = w.clock.now - t0
                # end: answer what is still held; capacity of the open connections must be whole again
                for p in list(srv.pending):
                    if p.req['op'] == 'QUERY' and not dead(p.conn):
                        VServer.answer(srv, p, deliver=True)
                for i, c in enumerate(self.conns):
                    if not dead(c):
                        if c.in_flight != 0 or sorted(c.request_ids) != list(range(c.highest_request_id + 1)):
                            self.problem('capacity-at-end', 'c%d: in_flight=%d free ids %r highest %d after every request was answered' % (
                                i, c.in_flight, sorted(c.request_ids), c.highest_request_id))
                for tag, msg, exc in self.spy.errors:
                    if msg.startswith('Failed connection heartbeat'):
                        self.problem('round-aborted', 'the heartbeat loop swallowed %s' % exc)
                self.teardown()
        finally:
            _Cur.x = None
        return self


def params_sabotage(x, k):
    """selftest only: the harness itself leaks one unit of capacity before round 2"""
    return x.params.get('sabotage') == 'leak' and k == 2


class _Lifo(collections.deque):
    """server outbox delivering the newest answer first"""

    def popleft(self):
        return collections.deque.pop(self)


def run_history(params):
    return HistExec(params).run()


class RealExec(HistExec):
    """Same histories over the holders of a real 3-host Cluster: two HostConnection pools (connections 0 and 1;
    the hosts the control connection is not on) and the ControlConnection (connection 2).  Client requests on pool connections go through the real
    borrow_connection / return_connection."""

    def make_server(self):
        return ScriptServer([HostSpec('10.0.0.1'), HostSpec('10.0.0.2'), HostSpec('10.0.0.3')])

    def setup(self):
        w = self.w
        self.cluster = cluster = w.make_cluster(connection_class=SmallConn)
        self.session = session = cluster.connect(wait_for_all_pools=True)
        w.pump()
        # the pool of the control connection's own host is left alone (answers SUPPORTED): when a host is marked
        # down the cluster itself replaces a control connection to it, which is not the heartbeat's doing
        ctl = cluster.control_connection._connection
        pools = sorted((p for p in session.get_pools() if p.host.endpoint != ctl.endpoint), key=lambda p: str(p.host.endpoint))
        if len(pools) != 2 or any(p._connection is None for p in pools):
            raise HarnessError('expected two more pools with a connection each')
        self.pool_of = {p._connection.vid: p for p in pools}
        self.conns = [pools[0]._connection, pools[1]._connection, cluster.control_connection._connection]
        if len(self.params['conns']) != 3:
            raise HarnessError('real variant takes 3 connection specs')
        for c in self.conns:
            if dead(c) or c.in_flight:
                raise HarnessError('setup left connection %r busy or dead' % (c,))
        self.client_returning = 0
        self.wrapped = set()
        self.holder_errors = []

    def get_holders(self):
        holders = self.cluster.get_connection_holders()
        for h in holders:
            if id(h) not in self.wrapped:
                self.wrapped.add(id(h))
                self._wrap(h)
        return holders

    def _wrap(self, h):
        real = h.return_connection
        name = type(h).__name__
        x = self

        def return_connection(connection, *a, **k):
            if not x.client_returning:
                x.returned.append((x.round, connection.vid, name))
            return real(connection, *a, **k)
        h.return_connection = return_connection

    def send(self, c, query):
        pool = self.pool_of.get(c.vid)
        if pool is None:
            return client_send(self, c, query)
        conn, rid = pool.borrow_connection(timeout=0)
        if conn is not c:
            raise HarnessError('pool handed out another connection')
        req = ClientReq(c, rid)

        def cb(resp):
            self.client_returning += 1
            try:
                pool.return_connection(conn)
            finally:
                self.client_returning -= 1
            req.result, req.done = resp, True
        self.client_reqs.append(req)
        c.send_msg(QueryMessage(query, 1), rid, cb)
        return req

    def teardown(self):
        self.w.pump()
        self.cluster.shutdown()
        self.w.pump()


def run_real(params):
    return RealExec(params).run()


def selftest():
    """The executors observe what they should on two fixed vectors, and the accounting oracle fires when the
    harness itself leaks a unit of capacity."""
    v = {'conns': [{'holder': 0, 'rounds': [['idle', 'supported'], ['idle', 'silence']]}]}
    x = run_history(v)
    # only the mechanics of the harness are asserted here (what the driver did is the check's business)
    if len(x.facts) != 3 or x.round != 3:
        raise HarnessError('c44 selftest: %d observation points, %d rounds' % (len(x.facts), x.round))
    # how long the driver takes for three rounds is the check's business too (a driver that waits two intervals
    # between rounds must end as a violation, not as a harness error): only "virtual time advanced" is asserted
    if not x.elapsed > 0:
        raise HarnessError('c44 selftest: virtual time %r' % (x.elapsed,))
    v = {'conns': [{'holder': 0, 'rounds': [['idle', 'supported'], ['idle', 'supported']]}], 'sabotage': 'leak'}
    x = run_history(v)
    if not any(t in ('capacity-changed/success', 'in-flight-accounting') for t, _ in x.problems):
        raise HarnessError('c44 selftest: a leaked unit of capacity went unnoticed: %r' % (x.problems,))


# ---------------------------------------------------------------------------- engine S layer
FOCUS = [ConnectionHeartbeat.run.__code__,
         HeartbeatFuture.__init__.__code__, HeartbeatFuture.wait.__code__, HeartbeatFuture._options_callback.__code__,
         Connection.get_request_id.__code__, Connection.send_msg.__code__,
         Connection.process_msg.__wrapped__.__code__]

S_REPLIES = ('supported', 'error', 'silence', 'conn_error')


class SchedExec(object):
    """One schedule: params = {'replies': [[kind per round] per connection], 'layout': [holder index per
    connection], 'client': None | {'conn': i, 'when': k}, 'stop': 'after' | 'any'}.

    Threads: main (creates the heartbeat thread, later calls stop()), reactor (delivers what the server
    has ready, in an order and at moments chosen by the explorer), client (one request on a connection, as a
    pool user), heartbeat (the real ConnectionHeartbeat.run).  Round 0 is the warm-up round (fresh
    connections have just received their handshake traffic)."""

    def __init__(self, params, prefix):
        self.params, self.prefix = params, list(prefix)
        self.round = -1
        self.returned = []
        self.client_reqs = []
        self.last_event = None
        self.mapped_event = None
        self.log = []                   # harness-visible events, in execution order
        self.heartbeats = []            # dict(round, conn, event, kind, wait)
        self.by_event = {}
        self.problems = []
        self.flags = set()
        self.done = False
        self.stopped = False
        self.hb = None
        self.client_state = None
        self.dead_at = {}

    def problem(self, tail, text):
        self.problems.append((tail, text))

    def note(self, *ev):
        self.log.append(ev)
        return len(self.log) - 1

    # -- HBEvent callbacks
    def is_shutdown_event(self, ev):
        return self.hb is not None and ev is getattr(self.hb, '_shutdown_event', None)

    def in_hb_thread(self):
        return RT.sched is not None and self.hb is not None and RT.sched.current is self.hb._vt

    def no_more_intervals(self, ev):
        return self.is_shutdown_event(ev) and self.round > self.nrounds and self.in_hb_thread()

    def wait_label(self, ev):
        if ev in self.by_event:
            return 'heartbeat-answer-wait'
        if self.is_shutdown_event(ev):
            return 'interval-wait'
        return 'Event.wait'

    def on_wait_begin(self, ev, timeout):
        if self.is_shutdown_event(ev):
            if self.in_hb_thread():
                self.note('interval_begin', self.round)
        elif ev in self.by_event:
            self.note('hbwait_begin', self.by_event[ev]['conn'])

    def on_wait_end(self, ev, r):
        if self.is_shutdown_event(ev):
            if self.in_hb_thread():
                self.note('interval_end', self.round, bool(r))
        elif ev in self.by_event:
            h = self.by_event[ev]
            h['wait'] = bool(r)
            h['wait_at'] = self.note('hbwait_end', h['conn'], bool(r))
            if not r:
                self.flags.add('timeout')

    # -- server script (runs in the thread that pushes: heartbeat or client)
    def script(self, p):
        op = p.req['op']
        vid = p.conn.vid
        if op == 'OPTIONS':
            ev = self.last_event
            if ev is None or ev is self.mapped_event:
                raise HarnessError('OPTIONS pushed without a fresh HeartbeatFuture event')
            self.mapped_event = ev
            rnd = self.round
            i = self.index_of[vid]
            kind = self.params['replies'][i][rnd - 1] if 1 <= rnd <= self.nrounds else 'supported'
            h = {'round': rnd, 'conn': i, 'kind': kind, 'wait': None, 'delivered_at': None}
            h['sent_at'] = self.note('options', i, rnd)
            self.heartbeats.append(h)
            self.by_event[ev] = h
            p.hb = h
            if kind == 'silence':
                return True
            p.kind = kind
            self.srv.pending.append(p)
            return True
        if op == 'QUERY':
            p.kind, p.hb = 'result', None
            self.srv.pending.append(p)
            return True
        return False

    def holders_fn(self):
        self.round += 1
        self.note('round_begin', self.round)
        self.dead_at[self.round] = [dead(c) for c in self.conns]
        if self.round > self.nrounds:
            return []
        return list(self.holders)

    # -- threads
    def t_main(self):
        s = self.s
        # the helper threads are started one by one and run up to their first wait, so that no scheduling
        # choice is spent on the order in which the threads of the harness come to life
        self.parked = set()
        s.spawn(self.t_reactor, 'reactor')
        s.block(lambda: 'reactor' in self.parked, None, 'main waits for the reactor thread')
        if self.params.get('client'):
            s.spawn(self.t_client, 'client')
            s.block(lambda: 'client' in self.parked, None, 'main waits for the client thread')
        HarnessHeartbeat(self, INTERVAL, self.holders_fn, TIMEOUT)
        if self.params.get('stop') == 'any':
            s.block(lambda: self.round >= 1 or self.hb._finished, None, 'main waits for the first real round')
            self.flags.add('stop_anytime')
        else:
            s.block(lambda: self.round > self.nrounds or self.hb._finished, None, 'main waits for the rounds')
        self.note('stop_begin', self.round)
        self.hb.stop()
        self.note('stop_end')
        self.stopped = True
        self.done = True

    def t_reactor(self):
        s, srv = self.s, self.srv
        while True:
            self.parked.add('reactor')
            s.block(lambda: bool(srv.pending) or (self.done and self.client_finished), None, 'reactor idle')
            if not srv.pending:
                return
            i = s.choose(len(srv.pending), 'deliver')
            p = srv.pending[i]
            ci = self.index_of[p.conn.vid]
            n = self.note('feed_begin', ci, p.kind)
            if p.hb is not None:
                p.hb['delivered_at'] = n
            if p.kind == 'result':
                VServer.answer(srv, p, deliver=True)
            else:
                reply_now(srv, p, p.kind, deliver=True)
            self.note('feed_end', ci, p.kind)

    def t_client(self):
        try:
            self._t_client()
        finally:
            self.client_finished = True

    def _t_client(self):
        s = self.s
        spec = self.params['client']
        c = self.conns[spec['conn']]
        self.parked.add('client')
        s.block(lambda: self.round >= spec['when'] or self.done, None, 'client waits for its moment')
        if self.done:
            self.client_state = 'never'
            return
        with c.lock:
            if not c.in_flight < c.max_request_id:
                self.client_state = 'no-capacity'
                return
            c.in_flight += 1
            rid = c.get_request_id()
        req = ClientReq(c, rid)

        def cb(resp):
            with c.lock:
                c.in_flight -= 1
            req.result, req.done = resp, True
        self.client_reqs.append(req)
        self.note('client_send', spec['conn'])
        try:
            c.send_msg(QueryMessage('now', 1), rid, cb)
        except ConnectionException as e:
            with c.lock:
                c.in_flight -= 1
            req.done, req.result = True, e
            self.client_state = 'send-failed'
            return
        # a request written while another thread defuncts the connection may never be completed (send_msg is not
        # atomic with error_all_requests; the subject of C10, bounded in the driver by the request timeout):
        # the client gives up once the connection is down
        s.block(lambda: req.done or dead(c), None, 'client waits for its response')
        if not req.done:
            self.client_state = 'lost'
            self.flags.add('client:lost-on-dying-connection')
            req.done = True
            return
        self.client_state = 'answered' if not isinstance(req.result, Exception) else 'errored'

    def monitor(self, s, kind, info):
        for c in self.conns:
            if not dead(c) and not 0 <= c.in_flight <= c.max_request_id:
                self.problem('in-flight-out-of-range', 'in_flight=%d on an open connection (max_request_id %d)' % (c.in_flight, c.max_request_id))

    # -- run
    def run(self):
        params = self.params
        self.nrounds = len(params['replies'][0])
        self.client_finished = not params.get('client')
        srv = self.srv = ScriptServer([HostSpec('10.0.0.1')])
        w = self.w = World(srv)
        s = self.s = sched.Scheduler(self.prefix, focus=FOCUS, horizon=params.get('horizon', 20000), clock=w.clock,
                                     timeouts_as_choices=not params.get('timeouts_last'))
        _Cur.x = self
        try:
            with w, Seams() as seams:
                self.spy = seams.spy
                self.holders = [Holder('pool', self), Holder('control', self)]
                self.conns = []
                for hi in params['layout']:
                    c = SmallConn('10.0.0.1', protocol_version=4, is_control_connection=(hi == 1))
                    w.pump()
                    if not c.connected_event.is_set() or dead(c) or c.in_flight:
                        raise HarnessError('handshake failed: %r' % (c.last_error,))
                    self.conns.append(c)
                    self.holders[hi].conns.append(c)
                self.index_of = {c.vid: i for i, c in enumerate(self.conns)}
                w.close_hooks.append(lambda c: self.note('closed', self.index_of.get(c.vid)))
                srv.script = self.script
                s.monitor = self.monitor
                s.spawn(self.t_main, 'main')
                s.run()
                self.judge()
        finally:
            _Cur.x = None
        return self

    # -- judgement at the end of the execution (facts recorded above + the property's statement)
    def judge(self):
        s, params = self.s, self.params
        anystop = params.get('stop') == 'any'
        if s.failure:
            self.problem(s.failure[0], s.failure[1])
            return
        for t in s.threads:
            if t.exc is not None:
                self.problem('thread-exception/%s/%s' % (t.name.split('-')[0].replace(' ', '_'), type(t.exc).__name__),
                             '%r in thread %s' % (t.exc, t.name))
        if not self.stopped or self.hb is None or not self.hb._finished:
            self.problem('not-stopped', 'stop() did not end the heartbeat thread')
        for tag, msg, exc in self.spy.errors:
            if msg.startswith('Failed connection heartbeat'):
                self.problem('round-aborted', 'the heartbeat loop swallowed %s' % exc)
        pos = {}
        for n, ev in enumerate(self.log):
            if ev[0] in ('round_begin', 'interval_begin'):
                pos[(ev[0], ev[1])] = n
            elif ev[0] == 'interval_end':
                pos[('interval_end', ev[1])] = n
        stop_at = next((n for n, ev in enumerate(self.log) if ev[0] == 'stop_begin'), len(self.log))
        # client traffic window
        traffic = {}
        for n, ev in enumerate(self.log):
            if ev[0] == 'feed_begin' and ev[2] == 'result':
                traffic[ev[1]] = [n, None]
            elif ev[0] == 'feed_end' and ev[2] == 'result':
                traffic[ev[1]][1] = n
        for i, c in enumerate(self.conns):
            hbs = [h for h in self.heartbeats if h['conn'] == i]
            failed_round = None
            for k in range(0, self.nrounds + 1):
                if ('round_begin', k) not in pos:
                    break
                rb = pos[('round_begin', k)]
                # the round is judged only if it ran to its end before stop() was called
                ib = pos.get(('interval_begin', k))
                complete = ib is not None and ib < stop_at
                mine = [h for h in hbs if h['round'] == k]
                n_ret = sum(1 for (r, vid, _) in self.returned if r == k and vid == c.vid)
                tag = 'r%d c%d' % (k, i)
                if len(mine) > 1:
                    self.problem('heartbeats-per-interval/2', '%s: %d OPTIONS in one round' % (tag, len(mine)))
                if failed_round is not None:
                    if mine:
                        self.problem('options-on-dead-connection', '%s: OPTIONS after the heartbeat of round %d failed' % (tag, failed_round))
                    continue
                if not complete:
                    continue
                # did the connection receive (client) traffic, for sure / for sure not, in the interval before round k?
                tw = traffic.get(i)
                busy = idle = False
                if k == 0:
                    busy = True
                else:
                    lo, hi = pos.get(('interval_begin', k - 1)), pos.get(('interval_end', k - 1))
                    if tw is not None and tw[1] is not None and lo is not None and hi is not None and lo < tw[0] and tw[1] < hi:
                        busy = True
                    prb = pos[('round_begin', k - 1)]
                    if tw is None or (tw[1] is not None and tw[1] < prb) or tw[0] > ib:
                        idle = True
                if busy:
                    self.flags.add('fresh' if k == 0 else 'busy')
                    if mine:
                        self.problem('heartbeat-on-busy-connection/%s' % ('fresh' if k == 0 else 'client-traffic'),
                                     '%s: OPTIONS sent although the connection received traffic during the interval' % tag)
                if idle and not mine:
                    self.problem('heartbeats-per-interval/idle/0', '%s: idle open connection got no OPTIONS in the round' % tag)
                if not mine:
                    if n_ret:
                        self.problem('owner-notified-without-failure/no-heartbeat', '%s: return_connection called %d times' % (tag, n_ret))
                    continue
                h = mine[0]
                closed_at = next((n for n, ev in enumerate(self.log) if ev[0] == 'closed' and ev[1] == i), None)
                dead_after = self.dead_at.get(k + 1, [dead(x) for x in self.conns])[i]
                # the verdict the statement gives: answered in time / failed / not answered in time; a SUPPORTED whose
                # delivery started after the wait gave up but before the connection was closed may count either way
                if h['kind'] == 'supported':
                    if h['wait'] is True:
                        verdict = 'ok'
                    elif h['delivered_at'] is None or (closed_at is not None and h['delivered_at'] > closed_at):
                        verdict = 'late'
                    else:
                        verdict = 'late' if dead_after else 'ok'
                        self.flags.add('supported_at_the_deadline')
                else:
                    verdict = h['kind']
                if tw is not None and h['sent_at'] < (tw[1] if tw[1] is not None else 10 ** 9) and \
                        any(ev[0] == 'client_send' and n < (h.get('wait_at') or 10 ** 9) for n, ev in enumerate(self.log)):
                    self.flags.add('client_overlaps_heartbeat')
                if h['kind'] == 'supported' and h['wait'] is False and h['delivered_at'] is not None:
                    self.flags.add('late_supported')
                if verdict == 'ok':
                    if dead_after:
                        self.problem('answered-connection-killed', '%s: heartbeat answered in time but the connection is defunct/closed' % tag)
                    if n_ret:
                        self.problem('owner-notified-without-failure/success', '%s: return_connection called %d times' % (tag, n_ret))
                else:
                    failed_round = k
                    why = verdict
                    if h['wait'] is False:
                        self.flags.add('timeout_failure')
                    else:
                        self.flags.add('failure')
                    if not dead_after:
                        self.problem('failed-not-defunct/%s' % why, '%s: heartbeat failed (%s, wait=%r) but the connection is still open' % (tag, why, h['wait']))
                    elif not c.is_defunct:
                        self.problem('failed-not-defunct/%s' % why, '%s: closed but not marked defunct' % tag)
                    if n_ret != 1:
                        self.problem('owner-notifications/%s/%d' % (why, min(n_ret, 2)),
                                     '%s: heartbeat failed (%s), return_connection called %d times in that round' % (tag, why, n_ret))
            # capacity of a connection that never failed, once everything outstanding was answered
            if not dead(c) and not anystop:
                out = sorted(r.rid for r in self.client_reqs if r.conn is c and not r.done)
                if c.in_flight != len(out):
                    self.problem('in-flight-accounting', 'c%d: in_flight=%d with %d requests outstanding at the end' % (i, c.in_flight, len(out)))
                ids = sorted(list(c.request_ids) + out)
                if ids != list(range(c.highest_request_id + 1)):
                    self.problem('stream-id-accounting', 'c%d: free %r + outstanding %r != 0..%d' % (i, sorted(c.request_ids), out, c.highest_request_id))
        if self.client_state in ('answered', 'errored', 'send-failed'):
            self.flags.add('client:' + self.client_state)


def run_schedule(params, prefix):
    x = SchedExec(params, prefix).run()
    if params.get('cost') == 'deviations':
        # bound = number of non-default scheduling decisions; free of charge are only: what runs (or whether the
        # wait times out) while the heartbeat thread waits for an answer, and the reactor's delivery order
        for p in x.s.trace:
            free = p.kind.startswith('data:') or (p.kind == 'block' and p.info == 'heartbeat-answer-wait')
            p.cost = 0 if free else 1
    return x
