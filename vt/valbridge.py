"""Bridge between the reference value domain (vt.spec.values) and the driver's python objects.

Used by C01/C02/C28.  The driver type classes are *built* with apply_parameters /
make_udt_class (not parsed from strings: string parsing is the subject of C28).
"""
import datetime
import ipaddress

from vt.spec import values as V

_EPOCH = datetime.datetime(1970, 1, 1)

_SCALAR_CLASS = {
    'ascii': 'AsciiType', 'text': 'UTF8Type', 'varchar': 'VarcharType', 'blob': 'BytesType',
    'boolean': 'BooleanType', 'tinyint': 'ByteType', 'smallint': 'ShortType', 'int': 'Int32Type',
    'bigint': 'LongType', 'counter': 'CounterColumnType', 'varint': 'IntegerType',
    'decimal': 'DecimalType', 'float': 'FloatType', 'double': 'DoubleType', 'uuid': 'UUIDType',
    'timeuuid': 'TimeUUIDType', 'inet': 'InetAddressType', 'timestamp': 'TimestampType',
    'date': 'SimpleDateType', 'time': 'TimeType', 'duration': 'DurationType',
}

_memo = {}


def driver_type(t):
    """The driver's type class for the type description t."""
    try:
        return _memo[t]
    except KeyError:
        pass
    from cassandra import cqltypes as C
    k = t[0]
    if k in V.SCALARS:
        cls = getattr(C, _SCALAR_CLASS[k])
    elif k == 'list':
        cls = C.ListType.apply_parameters([driver_type(t[1])])
    elif k == 'set':
        cls = C.SetType.apply_parameters([driver_type(t[1])])
    elif k == 'map':
        cls = C.MapType.apply_parameters([driver_type(t[1]), driver_type(t[2])])
    elif k == 'tuple':
        cls = C.TupleType.apply_parameters([driver_type(s) for s in t[1:]])
    elif k == 'udt':
        cls = C.UserType.make_udt_class(t[1], t[2], tuple(fn for fn, _ in t[3]),
                                        tuple(driver_type(ft) for _, ft in t[3]))
    elif k == 'vector':
        cls = C.VectorType.apply_parameters([driver_type(t[1]), t[2]], None)
    elif k == 'frozen':
        cls = C.FrozenType.apply_parameters([driver_type(t[1])])
    elif k == 'reversed':
        cls = C.ReversedType.apply_parameters([driver_type(t[1])])
    else:
        raise ValueError(t)
    _memo[t] = cls
    return cls


def reset():
    _memo.clear()


def to_driver(t, v):
    """Reference value -> the python object a driver user passes for it (canonical forms:
    naive UTC datetime, util.Date, util.Time, util.Duration, sortedset, OrderedMap, tuple)."""
    from cassandra import util
    if v is None:
        return None
    k = t[0]
    if k in V.WRAPPERS:
        return to_driver(t[1], v)
    if k in V.SCALARS:
        if k == 'timestamp':
            return _EPOCH + datetime.timedelta(milliseconds=v)
        if k == 'date':
            return util.Date(v)
        if k == 'time':
            return util.Time(v)
        if k == 'duration':
            return util.Duration(*v)
        return v
    if k in ('list', 'vector'):
        return [to_driver(t[1], x) for x in v]
    if k == 'set':
        items = [to_driver(t[1], x) for x in v]
        try:
            ss = util.sortedset(items)
            if len(ss) == len(items) and all(a is b for a, b in zip(ss, items)):
                return ss
        except Exception:
            pass
        return items            # an ordered iterable: the driver writes it in this order
    if k == 'map':
        return util.OrderedMap([(to_driver(t[1], a), to_driver(t[2], b)) for a, b in v])
    if k in ('tuple', 'udt'):
        return tuple(to_driver(s, x) for s, x in zip(V.subtypes(t), v))
    raise ValueError(t)


class Bad(object):
    """A driver result of the wrong python type."""
    def __init__(self, want, got):
        self.want, self.got = want, got

    def __repr__(self):
        return 'Bad(wanted %s, got %s %r)' % (self.want, type(self.got).__name__, self.got)


def from_driver(t, x):
    """Driver result -> reference domain (wrong python types become Bad objects)."""
    from cassandra import util
    import decimal
    import uuid
    if x is None:
        return None
    k = t[0]
    if k in V.WRAPPERS:
        return from_driver(t[1], x)
    if k in V.SCALARS:
        if k in ('ascii', 'text', 'varchar', 'inet'):
            return x if type(x) is str else Bad('str', x)
        if k == 'blob':
            return x if type(x) is bytes else Bad('bytes', x)
        if k == 'boolean':
            return x if type(x) is bool else Bad('bool', x)
        if k in ('tinyint', 'smallint', 'int', 'bigint', 'counter', 'varint'):
            return x if type(x) is int else Bad('int', x)
        if k == 'decimal':
            return x if type(x) is decimal.Decimal else Bad('Decimal', x)
        if k in ('float', 'double'):
            return x if type(x) is float else Bad('float', x)
        if k in ('uuid', 'timeuuid'):
            return x if type(x) is uuid.UUID else Bad('UUID', x)
        if k == 'timestamp':
            if type(x) is not datetime.datetime or x.tzinfo is not None:
                return Bad('naive datetime', x)
            td = x - _EPOCH
            us = (td.days * 86400 + td.seconds) * 10 ** 6 + td.microseconds
            return us // 1000 if us % 1000 == 0 else SubMs(us)
        if k == 'date':
            return x.days_from_epoch if type(x) is util.Date else Bad('util.Date', x)
        if k == 'time':
            return x.nanosecond_time if type(x) is util.Time else Bad('util.Time', x)
        if k == 'duration':
            return (x.months, x.days, x.nanoseconds) if type(x) is util.Duration else Bad('util.Duration', x)
    if k in ('list', 'vector'):
        return [from_driver(t[1], e) for e in x] if type(x) is list else Bad('list', x)
    if k == 'set':
        return [from_driver(t[1], e) for e in x] if isinstance(x, util.SortedSet) else Bad('sortedset', x)
    if k == 'map':
        if not isinstance(x, util.OrderedMap):
            return Bad('OrderedMap', x)
        return [(from_driver(t[1], a), from_driver(t[2], b)) for a, b in x._items]
    if k == 'tuple':
        if type(x) is not tuple:
            return Bad('tuple', x)
        if len(x) != len(t) - 1:
            return Bad('tuple of %d' % (len(t) - 1), x)
        return tuple(from_driver(s, e) for s, e in zip(V.subtypes(t), x))
    if k == 'udt':
        if not isinstance(x, tuple):
            return Bad('tuple', x)
        if len(x) != len(t[3]):
            return Bad('tuple of %d' % len(t[3]), x)
        return tuple(from_driver(s, e) for s, e in zip(V.subtypes(t), x))
    raise ValueError(t)


class SubMs(object):
    """A datetime that is not a whole number of milliseconds (microseconds since epoch)."""
    def __init__(self, us):
        self.us = us

    def __repr__(self):
        return 'SubMs(%d us)' % self.us


def diff(t, want, got, where=()):
    """First difference between the reference value `want` and the converted driver result `got`:
    None or (leaf type, failure kind, where, want_leaf, got_leaf)."""
    k = t[0]
    if k in V.WRAPPERS:
        return diff(t[1], want, got, where)
    if want is None and got is None:
        return None
    if want is None:
        if got == '' or got == b'':
            return (t, 'null-became-empty', where, want, got)
        return (t, 'null-became-value', where, want, got)
    if got is None:
        return (t, 'value-became-null', where, want, got)
    if isinstance(got, Bad):
        return (t, 'type', where, want, got)
    if k in V.SCALARS:
        if k == 'timestamp':
            if isinstance(got, SubMs):
                kind = 'float-seconds' if abs(got.us - want * 1000) < 1000 else 'value'
                return (t, kind, where, want, got)
        if V.same(t, want, got):
            return None
        return (t, 'value', where, want, got)
    if k in ('list', 'vector'):
        if len(want) != len(got):
            return (t, 'length', where, want, got)
        for a, b in zip(want, got):
            d = diff(t[1], a, b, where + (k,))
            if d:
                return d
        return None
    if k == 'set':
        if len(got) < len(want):
            return (t, 'element-lost', where, want, got)
        if len(got) > len(want):
            return (t, 'element-added', where, want, got)
        rest = list(got)
        unmatched = []
        for a in want:
            for i, b in enumerate(rest):
                if diff(t[1], a, b, where + (k,)) is None:
                    del rest[i]
                    break
            else:
                unmatched.append(a)
        if not unmatched:
            return None
        best = None
        for b in rest:
            d = diff(t[1], unmatched[0], b, where + (k,))
            if best is None or (d and d[1] != 'value' and best[1] == 'value'):
                best = d
        return best or (t, 'value', where, want, got)
    if k == 'map':
        if len(want) != len(got):
            return (t, 'length', where, want, got)
        for (ka, va), (kb, vb) in zip(want, got):
            d = diff(t[1], ka, kb, where + ('map',)) or diff(t[2], va, vb, where + ('map',))
            if d:
                return d
        return None
    if k in ('tuple', 'udt'):
        subs = V.subtypes(t)
        want = tuple(want) + (None,) * (len(subs) - len(want))
        got = tuple(got) + (None,) * (len(subs) - len(got))
        if len(got) != len(subs):
            return (t, 'length', where, want, got)
        for s, a, b in zip(subs, want, got):
            d = diff(s, a, b, where + (k,))
            if d:
                return d
        return None
    raise ValueError(t)


def _only_a_zero_lost(t, want, got):
    """True exactly when the set holds both 0.0 and -0.0 (distinct for Cassandra, equal for python)
    and every element missing from the result is one of the two."""
    import struct
    et = V.unwrap(V.subtypes(t)[0])
    if t[0] != 'set' or et[0] not in ('float', 'double'):
        return False
    try:
        bits = lambda x: struct.pack('>d', x)
        wanted = [bits(x) for x in want if isinstance(x, float)]
        if len(wanted) != len(want) or bits(0.0) not in wanted or bits(-0.0) not in wanted:
            return False
        rest = [bits(x) for x in got if isinstance(x, float)]
        lost = []
        for b in wanted:
            if b in rest:
                rest.remove(b)
            else:
                lost.append(b)
        return bool(lost) and all(b in (bits(0.0), bits(-0.0)) for b in lost)
    except Exception:
        return False


def describe(d):
    """(fingerprint tail, text) for a diff tuple."""
    t, kind, where, want, got = d
    if kind == 'null-became-empty' and where and where[-1] in ('list', 'set', 'map'):
        return '%s/null-element-became-empty' % where[-1], 'null element of a %s of %s came back as %r' % (where[-1], t[0], got)
    tail = '%s/%s' % (t[0], kind)
    if kind in ('element-lost', 'element-added', 'length'):
        tail = '%s/%s/%s' % (t[0], kind, V.unwrap(V.subtypes(t)[0])[0])
        if kind == 'element-lost' and _only_a_zero_lost(t, want, got):
            tail += '/negative-zero'
    return tail, '%s inside %s: wanted %r, got %r' % (t[0], '/'.join(where) or 'top level', want, got)


def localise(t, v, pv, fails):
    """Smallest sub-value for which fails(sub_type, sub_value, pv) still holds.
    -> (sub_type, sub_value, where)"""
    def rec(t, v, pv, where):
        k = t[0]
        if k in V.WRAPPERS:
            return rec(t[1], v, pv, where)
        if k in V.SCALARS or v is None:
            return (t, v, where)
        inner = max(3, pv)
        if k in ('list', 'set'):
            parts = [(t[1], x) for x in v]
        elif k == 'vector':
            parts = [(t[1], x) for x in v]
            inner = pv
        elif k == 'map':
            parts = [(t[1], a) for a, _ in v] + [(t[2], b) for _, b in v]
        else:
            parts = list(zip(V.subtypes(t), v))
        for st, x in parts:
            if x is None:
                continue
            try:
                bad = fails(st, x, inner)
            except Exception:
                bad = True
            if bad:
                return rec(st, x, inner, where + (k,))
        return (t, v, where)
    return rec(t, v, pv, ())


def alt_forms(t, v):
    """Other python objects the driver documents/accepts for the same value (top level only)."""
    from cassandra import util
    k = V.unwrap(t)[0]
    t = V.unwrap(t)
    out = []
    if k == 'date':
        if datetime.date.min.toordinal() <= v + 719163 <= datetime.date.max.toordinal():
            out.append(('datetime.date', datetime.date.fromordinal(v + 719163)))
    elif k == 'time':
        if v % 1000 == 0:
            us = v // 1000
            out.append(('datetime.time', datetime.time(us // 3600000000, us // 60000000 % 60, us // 1000000 % 60, us % 1000000)))
    elif k == 'timestamp':
        out.append(('int-ms', v))
        if v % 86400000 == 0:
            out.append(('datetime.date', (_EPOCH + datetime.timedelta(milliseconds=v)).date()))
    elif k == 'blob':
        out.append(('bytearray', bytearray(v)))
        out.append(('memoryview', memoryview(v)))
    elif k == 'inet':
        out.append(('ipaddress', ipaddress.ip_address(v)))
    elif k == 'set':
        items = [to_driver(t[1], x) for x in v]
        try:
            s = set(items)
            if len(s) == len(items):
                out.append(('python-set', s))
        except TypeError:
            pass
    elif k == 'map':
        items = [(to_driver(t[1], a), to_driver(t[2], b)) for a, b in v]
        try:
            d = dict(items)
            if len(d) == len(items):
                out.append(('dict', d))
        except TypeError:
            pass
    elif k == 'udt':
        vals = tuple(to_driver(s, x) for s, x in zip(V.subtypes(t), v))
        T = driver_type(t)
        if getattr(T, 'tuple_type', None) is not None:
            out.append(('namedtuple', T.tuple_type(*vals)))
        names = [fn for fn, _ in t[3]]
        if all(n.isidentifier() for n in names):
            out.append(('object', _Obj(dict(zip(names, vals)))))
    elif k in ('list', 'vector'):
        out.append(('tuple-sequence', tuple(to_driver(t[1], x) for x in v)))
    return out


class _Obj(object):
    def __init__(self, d):
        self.__dict__.update(d)

    def __repr__(self):
        return 'Obj(%r)' % (self.__dict__,)


def short(x, n=300):
    r = repr(x)
    return r if len(r) <= n else r[:n] + '...(%d chars)' % len(r)
