"""Server-side wire codec for the virtual server (independent of the driver: stdlib only).

Covers what a Cassandra node needs to talk to the driver: frame headers v1-v5 (+DSE v1/v2),
request bodies, response bodies, v5 uncompressed segments (CRC24 header / CRC32 payload)."""
import struct
import uuid as _uuid
import zlib

OP_ERROR, OP_STARTUP, OP_READY, OP_AUTHENTICATE, OP_CREDENTIALS, OP_OPTIONS, OP_SUPPORTED, OP_QUERY, \
    OP_RESULT, OP_PREPARE, OP_EXECUTE, OP_REGISTER, OP_EVENT, OP_BATCH, OP_AUTH_CHALLENGE, \
    OP_AUTH_RESPONSE, OP_AUTH_SUCCESS = range(0x00, 0x11)
OP_REVISE = 0xFF
OPNAMES = {0: 'ERROR', 1: 'STARTUP', 2: 'READY', 3: 'AUTHENTICATE', 4: 'CREDENTIALS', 5: 'OPTIONS',
           6: 'SUPPORTED', 7: 'QUERY', 8: 'RESULT', 9: 'PREPARE', 10: 'EXECUTE', 11: 'REGISTER',
           12: 'EVENT', 13: 'BATCH', 14: 'AUTH_CHALLENGE', 15: 'AUTH_RESPONSE', 16: 'AUTH_SUCCESS', 0xFF: 'REVISE'}

FLAG_COMPRESSED, FLAG_TRACING, FLAG_PAYLOAD, FLAG_WARNING, FLAG_BETA = 0x01, 0x02, 0x04, 0x08, 0x10

# error codes
ERR_SERVER, ERR_PROTOCOL, ERR_BAD_CREDENTIALS = 0x0000, 0x000A, 0x0100
ERR_UNAVAILABLE, ERR_OVERLOADED, ERR_BOOTSTRAPPING, ERR_TRUNCATE = 0x1000, 0x1001, 0x1002, 0x1003
ERR_WRITE_TIMEOUT, ERR_READ_TIMEOUT, ERR_READ_FAILURE, ERR_FUNCTION_FAILURE, ERR_WRITE_FAILURE = \
    0x1100, 0x1200, 0x1300, 0x1400, 0x1500
ERR_SYNTAX, ERR_UNAUTHORIZED, ERR_INVALID, ERR_CONFIG, ERR_ALREADY_EXISTS, ERR_UNPREPARED = \
    0x2000, 0x2100, 0x2200, 0x2300, 0x2400, 0x2500

T_CUSTOM, T_ASCII, T_BIGINT, T_BLOB, T_BOOLEAN, T_COUNTER, T_DECIMAL, T_DOUBLE, T_FLOAT, T_INT = range(0, 10)
T_TIMESTAMP, T_UUID, T_VARCHAR, T_VARINT, T_TIMEUUID, T_INET = 0x0B, 0x0C, 0x0D, 0x0E, 0x0F, 0x10
T_LIST, T_MAP, T_SET = 0x20, 0x21, 0x22


def is_v5plus(v):
    """4-byte query flags / keyspace / segments-capable dialects (v5, v6, DSE v2=0x42)."""
    return v in (5, 6, 0x42)


def uses_segments(v):
    return v in (5, 6)


class Reader(object):
    def __init__(self, b, pos=0):
        self.b, self.p = bytes(b), pos

    def take(self, n):
        if n < 0 or self.p + n > len(self.b):
            raise ValueError('short read: want %d at %d of %d' % (n, self.p, len(self.b)))
        r = self.b[self.p:self.p + n]
        self.p += n
        return r

    def u8(self): return self.take(1)[0]
    def u16(self): return struct.unpack('>H', self.take(2))[0]
    def i32(self): return struct.unpack('>i', self.take(4))[0]
    def u32(self): return struct.unpack('>I', self.take(4))[0]
    def i64(self): return struct.unpack('>q', self.take(8))[0]
    def string(self): return self.take(self.u16()).decode('utf8')
    def longstring(self): return self.take(self.i32()).decode('utf8')
    def shortbytes(self): return self.take(self.u16())

    def bytes_(self):
        n = self.i32()
        return None if n < 0 else self.take(n)

    def value(self):
        n = self.i32()
        if n == -1:
            return None
        if n == -2:
            return 'UNSET'
        return self.take(n)

    def stringlist(self): return [self.string() for _ in range(self.u16())]
    def stringmap(self): return dict((self.string(), self.string()) for _ in range(self.u16()))
    def bytesmap(self): return dict((self.string(), self.bytes_()) for _ in range(self.u16()))
    def done(self): return self.p == len(self.b)


def parse_header(buf):
    """-> (version, flags, stream, opcode, length, header_size) or None if incomplete"""
    if len(buf) < 1:
        return None
    v = buf[0] & 0x7F
    if v >= 3:
        if len(buf) < 9:
            return None
        flags, stream, op, ln = struct.unpack('>BhBi', buf[1:9])
        return v, flags, stream, op, ln, 9
    if len(buf) < 8:
        return None
    flags, stream, op, ln = struct.unpack('>BbBi', buf[1:8])
    return v, flags, stream, op, ln, 8


def parse_query_params(r, v):
    out = {}
    out['consistency'] = r.u16()
    if v == 1:
        return out
    flags = r.u32() if is_v5plus(v) else r.u8()
    out['flags'] = flags
    if flags & 0x01:
        n = r.u16()
        vals = []
        for _ in range(n):
            if flags & 0x40:
                vals.append((r.string(), r.value()))
            else:
                vals.append(r.value())
        out['values'] = vals
    out['skip_metadata'] = bool(flags & 0x02)
    if flags & 0x04:
        out['page_size'] = r.i32()
    if flags & 0x08:
        out['paging_state'] = r.bytes_()
    if flags & 0x10:
        out['serial_consistency'] = r.u16()
    if flags & 0x20:
        out['timestamp'] = r.i64()
    if flags & 0x80 and is_v5plus(v):
        out['keyspace'] = r.string()
    return out


def parse_request(v, flags, op, body):
    """Parse a request body (uncompressed).  Returns a dict with 'op' (name) and fields."""
    r = Reader(body)
    out = {'op': OPNAMES.get(op, hex(op)), 'tracing': bool(flags & FLAG_TRACING)}
    if flags & FLAG_PAYLOAD:
        out['payload'] = r.bytesmap()
    if op == OP_STARTUP:
        out['options'] = r.stringmap()
    elif op == OP_OPTIONS:
        pass
    elif op == OP_QUERY:
        out['query'] = r.longstring()
        out.update(parse_query_params(r, v))
    elif op == OP_PREPARE:
        out['query'] = r.longstring()
        if is_v5plus(v):
            pf = r.u32()
            if pf & 0x01:
                out['keyspace'] = r.string()
    elif op == OP_EXECUTE:
        out['query_id'] = r.shortbytes()
        if v in (5, 6):
            out['result_metadata_id'] = r.shortbytes()
        if v == 1:
            n = r.u16()
            out['values'] = [r.value() for _ in range(n)]
            out['consistency'] = r.u16()
        else:
            out.update(parse_query_params(r, v))
    elif op == OP_BATCH:
        out['batch_type'] = r.u8()
        n = r.u16()
        qs = []
        for _ in range(n):
            kind = r.u8()
            q = r.longstring() if kind == 0 else r.shortbytes()
            m = r.u16()
            qs.append((kind, q, [r.value() for _ in range(m)]))
        out['queries'] = qs
        out['consistency'] = r.u16()
        if v >= 3:
            fl = r.u32() if is_v5plus(v) else r.u8()
            out['flags'] = fl
            if fl & 0x10:
                out['serial_consistency'] = r.u16()
            if fl & 0x20:
                out['timestamp'] = r.i64()
            if fl & 0x80 and is_v5plus(v):
                out['keyspace'] = r.string()
    elif op == OP_REGISTER:
        out['events'] = r.stringlist()
    elif op == OP_AUTH_RESPONSE:
        out['token'] = r.bytes_()
    elif op == OP_CREDENTIALS:
        out['credentials'] = r.stringmap()
    else:
        out['raw'] = body
        return out
    out['trailing'] = len(body) - r.p
    return out


# ------------------------------------------------------------------ writers
def w_u16(n): return struct.pack('>H', n)
def w_i32(n): return struct.pack('>i', n)
def w_string(s): b = s.encode('utf8'); return w_u16(len(b)) + b
def w_longstring(s): b = s.encode('utf8'); return w_i32(len(b)) + b
def w_shortbytes(b): return w_u16(len(b)) + b
def w_bytes(b): return w_i32(-1) if b is None else w_i32(len(b)) + b
def w_stringlist(l): return w_u16(len(l)) + b''.join(w_string(s) for s in l)


def w_inet(addr, port):
    parts = bytes(int(p) for p in addr.split('.'))
    return bytes([len(parts)]) + parts + w_i32(port)


def frame(v, stream, op, body, flags=0, tracing_id=None, warnings=None, payload=None):
    pre = b''
    if tracing_id is not None:
        flags |= FLAG_TRACING
        pre += tracing_id.bytes
    if warnings is not None:
        flags |= FLAG_WARNING
        pre += w_stringlist(warnings)
    if payload is not None:
        flags |= FLAG_PAYLOAD
        pre += w_u16(len(payload)) + b''.join(w_string(k) + w_bytes(x) for k, x in payload.items())
    body = pre + body
    if v >= 3:
        return struct.pack('>BBhBi', 0x80 | v, flags, stream, op, len(body)) + body
    return struct.pack('>BBbBi', 0x80 | v, flags, stream, op, len(body)) + body


def supported(options):
    return w_u16(len(options)) + b''.join(w_string(k) + w_stringlist(vs) for k, vs in options.items())


def error(code, msg, **kw):
    b = w_i32(code) + w_string(msg)
    if code == ERR_UNAVAILABLE:
        b += w_u16(kw.get('cl', 1)) + w_i32(kw.get('required', 1)) + w_i32(kw.get('alive', 0))
    elif code == ERR_WRITE_TIMEOUT:
        b += w_u16(kw.get('cl', 1)) + w_i32(kw.get('received', 0)) + w_i32(kw.get('blockfor', 1)) + \
            w_string(kw.get('write_type', 'SIMPLE'))
    elif code == ERR_READ_TIMEOUT:
        b += w_u16(kw.get('cl', 1)) + w_i32(kw.get('received', 0)) + w_i32(kw.get('blockfor', 1)) + \
            bytes([1 if kw.get('data_present') else 0])
    elif code == ERR_UNPREPARED:
        b += w_shortbytes(kw['query_id'])
    elif code == ERR_ALREADY_EXISTS:
        b += w_string(kw.get('keyspace', 'ks')) + w_string(kw.get('table', ''))
    return b


def type_option(t):
    """t: int code | ('list', t) | ('set', t) | ('map', k, v)"""
    if isinstance(t, int):
        return w_u16(t)
    if t[0] == 'list':
        return w_u16(T_LIST) + type_option(t[1])
    if t[0] == 'set':
        return w_u16(T_SET) + type_option(t[1])
    if t[0] == 'map':
        return w_u16(T_MAP) + type_option(t[1]) + type_option(t[2])
    raise ValueError(t)


def enc_value(t, x, v=4):
    if x is None:
        return None
    if t in (T_VARCHAR, T_ASCII):
        return x.encode('utf8')
    if t == T_INT:
        return struct.pack('>i', x)
    if t == T_BIGINT:
        return struct.pack('>q', x)
    if t == T_BOOLEAN:
        return b'\x01' if x else b'\x00'
    if t in (T_UUID, T_TIMEUUID):
        return x.bytes if isinstance(x, _uuid.UUID) else _uuid.UUID(x).bytes
    if t == T_INET:
        return bytes(int(p) for p in x.split('.'))
    if t == T_BLOB:
        return bytes(x)
    if isinstance(t, tuple) and t[0] in ('list', 'set'):
        out = (w_i32 if v >= 3 else w_u16)(len(x))
        for e in x:
            eb = enc_value(t[1], e, v)
            out += (w_i32(len(eb)) if v >= 3 else w_u16(len(eb))) + eb
        return out
    raise ValueError('enc_value %r' % (t,))


def rows_metadata(columns, v, paging_state=None, no_metadata=False, ks='ks', table='t', new_metadata_id=None):
    flags = 0x0001
    if paging_state is not None:
        flags |= 0x0002
    if no_metadata:
        flags |= 0x0004
    if new_metadata_id is not None:
        flags |= 0x0008
    b = w_i32(flags) + w_i32(len(columns))
    if paging_state is not None:
        b += w_bytes(paging_state)
    if new_metadata_id is not None:
        b += w_shortbytes(new_metadata_id)
    if not no_metadata:
        b += w_string(ks) + w_string(table)
        for name, t in columns:
            b += w_string(name) + type_option(t)
    else:
        b = w_i32(flags & ~0x0001) + b[4:]
    return b


def result_rows(columns, rows, v, paging_state=None, no_metadata=False, ks='ks', table='t'):
    """columns: [(name, type)], rows: list of lists of python values"""
    b = w_i32(2) + rows_metadata(columns, v, paging_state, no_metadata, ks, table)
    b += w_i32(len(rows))
    for row in rows:
        for (name, t), x in zip(columns, row):
            b += w_bytes(enc_value(t, x, v))
    return b


def result_void():
    return w_i32(1)


def result_set_keyspace(ks):
    return w_i32(3) + w_string(ks)


def result_prepared(query_id, bind_columns, result_columns, v, pk_indexes=(), result_metadata_id=b'rmid',
                    ks='ks', table='t'):
    b = w_i32(4) + w_shortbytes(query_id)
    if v in (5, 6):
        b += w_shortbytes(result_metadata_id)
    # bind metadata
    flags = 0x0001
    b += w_i32(flags) + w_i32(len(bind_columns))
    if v >= 4:
        b += w_i32(len(pk_indexes)) + b''.join(w_u16(i) for i in pk_indexes)
    b += w_string(ks) + w_string(table)
    for name, t in bind_columns:
        b += w_string(name) + type_option(t)
    if v >= 2:
        b += rows_metadata(result_columns, v, ks=ks, table=table)
    return b


def result_schema_change(change, target, ks, name=None, v=4):
    b = w_i32(5) + w_string(change)
    if v >= 3:
        b += w_string(target) + w_string(ks)
        if target != 'KEYSPACE':
            b += w_string(name or '')
    else:
        b += w_string(ks) + w_string(name or '')
    return b


def event_status(change, addr, port=9042):
    return w_string('STATUS_CHANGE') + w_string(change) + w_inet(addr, port)


def event_topology(change, addr, port=9042):
    return w_string('TOPOLOGY_CHANGE') + w_string(change) + w_inet(addr, port)


# ------------------------------------------------------------------ v5 segments (uncompressed)
CRC24_INIT, CRC24_POLY = 0x875060, 0x1974F0B
CRC32_INITIAL = b'\xfa\x2d\x55\xca'
MAX_PAYLOAD = 128 * 1024 - 1


def crc24(data):
    crc = CRC24_INIT
    for byte in data:
        crc ^= byte << 16
        for _ in range(8):
            crc <<= 1
            if crc & 0x1000000:
                crc ^= CRC24_POLY
    return crc


def crc32(data):
    return zlib.crc32(data, zlib.crc32(CRC32_INITIAL)) & 0xffffffff


def segment(payload, self_contained=True):
    assert len(payload) <= MAX_PAYLOAD
    h = len(payload) | ((1 if self_contained else 0) << 17)
    hb = h.to_bytes(3, 'little')
    return hb + crc24(hb).to_bytes(3, 'little') + payload + crc32(payload).to_bytes(4, 'little')


def segments_for(frame_bytes):
    if len(frame_bytes) <= MAX_PAYLOAD:
        return segment(frame_bytes, True)
    out = b''
    for i in range(0, len(frame_bytes), MAX_PAYLOAD):
        out += segment(frame_bytes[i:i + MAX_PAYLOAD], False)
    return out


class SegmentReader(object):
    """Incremental reader of client->server uncompressed v5 segments."""
    def __init__(self):
        self.buf = b''

    def feed(self, data):
        self.buf += data
        out = b''
        while len(self.buf) >= 6:
            hb = self.buf[:3]
            if crc24(hb) != int.from_bytes(self.buf[3:6], 'little'):
                raise ValueError('client segment header crc mismatch')
            h = int.from_bytes(hb, 'little')
            ln = h & 0x1ffff
            if len(self.buf) < 6 + ln + 4:
                break
            payload = self.buf[6:6 + ln]
            if crc32(payload) != int.from_bytes(self.buf[6 + ln:10 + ln], 'little'):
                raise ValueError('client segment payload crc mismatch')
            out += payload
            self.buf = self.buf[10 + ln:]
        return out


# ------------------------------------------------------------------ v5 segments on a connection that negotiated lz4
# (added for C06/C47; nothing above depends on it)
# header: 5 bytes little endian = 17 bits payload length | 17 bits uncompressed length | 1 bit self-contained |
# 5 bits padding, then CRC24 of those 5 bytes (3 bytes LE); uncompressed length 0 = "payload left uncompressed".
def segment_lz4(payload, self_contained=True, compress_block=None):
    """One segment as a node writes it when lz4 was negotiated.  compress_block(bytes) -> raw LZ4 block
    (no size prefix); None, or a block that is not smaller than the payload, leaves the payload
    uncompressed (uncompressed-length field 0), which is what Cassandra does."""
    assert len(payload) <= MAX_PAYLOAD
    enc, ulen = payload, 0
    if compress_block is not None:
        blk = compress_block(payload)
        if len(blk) < len(payload):
            enc, ulen = blk, len(payload)
    h = len(enc) | (ulen << 17) | ((1 if self_contained else 0) << 34)
    hb = h.to_bytes(5, 'little')
    return hb + crc24(hb).to_bytes(3, 'little') + enc + crc32(enc).to_bytes(4, 'little')


def segments_for_lz4(frame_bytes, compress_block=None):
    if len(frame_bytes) <= MAX_PAYLOAD:
        return segment_lz4(frame_bytes, True, compress_block)
    out = b''
    for i in range(0, len(frame_bytes), MAX_PAYLOAD):
        out += segment_lz4(frame_bytes[i:i + MAX_PAYLOAD], False, compress_block)
    return out


class SegmentLog(object):
    """Incremental reader of client->server v5 segments, either header form; keeps a record of every
    segment: (payload_length_on_wire, uncompressed_length_field or None, self_contained, payload)."""
    def __init__(self, compressed=False, decompress_block=None):
        self.buf = b''
        self.compressed = compressed
        self.decompress_block = decompress_block     # fn(block, uncompressed_size) -> bytes
        self.segments = []

    def feed(self, data):
        self.buf += data
        out = b''
        hl = 5 if self.compressed else 3
        while len(self.buf) >= hl + 3:
            hb = self.buf[:hl]
            if crc24(hb) != int.from_bytes(self.buf[hl:hl + 3], 'little'):
                raise ValueError('client segment header crc mismatch')
            h = int.from_bytes(hb, 'little')
            ln = h & 0x1ffff
            if self.compressed:
                ulen = (h >> 17) & 0x1ffff
                sc = bool((h >> 34) & 1)
                pad = h >> 35
            else:
                ulen = None
                sc = bool((h >> 17) & 1)
                pad = h >> 18
            if pad:
                raise ValueError('client segment header padding bits set')
            if len(self.buf) < hl + 3 + ln + 4:
                break
            enc = self.buf[hl + 3:hl + 3 + ln]
            if crc32(enc) != int.from_bytes(self.buf[hl + 3 + ln:hl + 7 + ln], 'little'):
                raise ValueError('client segment payload crc mismatch')
            payload = enc
            if self.compressed and ulen:
                payload = self.decompress_block(enc, ulen)
                if len(payload) != ulen:
                    raise ValueError('client segment: uncompressed length field wrong')
            self.segments.append((ln, ulen, sc, payload))
            out += payload
            self.buf = self.buf[hl + 7 + ln:]
        return out


def result_rows_cp(columns, rows, v, seq, last, ks='ks', table='t'):
    """RESULT/Rows page of a DSE continuous-paging session: metadata flag 0x40000000 (continuous paging,
    followed by <seq:int>), 0x80000000 (last page)."""
    flags = 0x0001 | 0x40000000 | (0x80000000 if last else 0)
    b = w_i32(2) + struct.pack('>I', flags) + w_i32(len(columns)) + w_i32(seq)
    b += w_string(ks) + w_string(table)
    for name, t in columns:
        b += w_string(name) + type_option(t)
    b += w_i32(len(rows))
    for row in rows:
        for (name, t), x in zip(columns, row):
            b += w_bytes(enc_value(t, x, v))
    return b
