"""Virtual world: seams that close the driver's environment (see DESIGN.md section 2)."""
import sys
import types

_installed = False


def install():
    """Make `import cassandra.cluster` work on this interpreter (no asyncore, no libev) by
    pre-registering a stub `cassandra.io.libevreactor` whose LibevConnection is a plain
    Connection subclass.  Idempotent.  Must run before cassandra.cluster is imported."""
    global _installed
    if _installed:
        return
    from vt.core import setup_repo_path
    setup_repo_path()
    import warnings
    warnings.filterwarnings('ignore')
    if 'cassandra.io.libevreactor' not in sys.modules:
        import cassandra.io  # noqa
        from cassandra.connection import Connection
        mod = types.ModuleType('cassandra.io.libevreactor')

        class LibevConnection(Connection):
            """placeholder default connection class; checks always pass connection_class explicitly"""
        mod.LibevConnection = LibevConnection
        sys.modules['cassandra.io.libevreactor'] = mod
    import cassandra.cluster  # noqa
    _installed = True
