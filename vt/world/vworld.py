"""The closed world: virtual clock, timers, executor, scheduler, connections and server.

Everything the driver would get from the OS (threads, time, sockets, a Cassandra node) is
provided here, deterministically, and driven by the explorer.  See DESIGN.md section 2.
"""
import collections
import itertools
import uuid

from vt import vthreading
from vt.vthreading import RT, VLock, VRLock, VCondition, VEvent, VThread, WouldBlock
from vt.world import install as _install_stub
from vt.world import wire

_install_stub()

import cassandra.cluster as _cluster      # noqa: E402
import cassandra.connection as _connection  # noqa: E402
import cassandra.pool as _pool            # noqa: E402
import cassandra.policies as _policies    # noqa: E402
import cassandra.metadata as _metadata    # noqa: E402
import cassandra.timestamps as _timestamps  # noqa: E402
import cassandra.concurrent as _concurrent  # noqa: E402
from cassandra.connection import Connection, ConnectionShutdown, Timer  # noqa: E402


# ---------------------------------------------------------------------------- clock
class VClock(object):
    def __init__(self, start=1000.0):
        self.now = start

    def advance(self, d):
        if d > 0:
            self.now += d

    def advance_to(self, t):
        if t > self.now:
            self.now = t


class _VTime(object):
    """Stands in for the `time` module inside driver modules."""
    @staticmethod
    def time():
        w = RT.world
        if w is None:
            raise RuntimeError('driver read the clock outside a World')
        w.clock_reads += 1
        return w.clock.now

    monotonic = time
    perf_counter = time

    @staticmethod
    def sleep(d):
        w = RT.world
        s = RT.sched
        if s is not None:
            s.sleep(d)
            return
        w.sleeps += 1
        if w.sleeps > w.max_sleeps:
            raise WouldBlock('sleep budget exhausted (busy wait?)')
        w.pump()
        w.advance_time(d)


# ---------------------------------------------------------------------------- futures / executor
class VFuture(object):
    def __init__(self, label=''):
        self._done = False
        self._result = None
        self._exc = None
        self._cbs = []
        self._cancelled = False
        self._running = False     # set while World.run_task executes it: cancel() of a running task fails, as for the real Future
        self.label = label

    def done(self):
        return self._done

    def cancelled(self):
        return self._cancelled

    def running(self):
        return False

    def cancel(self):
        if self._done or self._running:
            return False
        self._cancelled = True
        self._done = True
        self._fire()
        return True

    def _fire(self):
        cbs, self._cbs = self._cbs, []
        for cb in cbs:
            try:
                cb(self)
            except Exception:
                import logging
                logging.getLogger('vt.world').exception('exception calling future callback')

    def set_result(self, r):
        self._result, self._done = r, True
        self._fire()

    def set_exception(self, e):
        self._exc, self._done = e, True
        self._fire()

    def add_done_callback(self, fn):
        if self._done:
            fn(self)
        else:
            self._cbs.append(fn)

    def _wait(self, timeout):
        if not self._done:
            ok = vthreading._wait(lambda: self._done, timeout, 'Future.result(%s)' % self.label)
            if not ok:
                from concurrent.futures import TimeoutError
                raise TimeoutError()

    def result(self, timeout=None):
        self._wait(timeout)
        if self._exc is not None:
            raise self._exc
        return self._result

    def exception(self, timeout=None):
        self._wait(timeout)
        return self._exc


_DoneAndNotDone = collections.namedtuple('DoneAndNotDoneFutures', 'done not_done')


def v_wait_futures(fs, timeout=None, return_when='ALL_COMPLETED'):
    fs = list(fs)
    if return_when == 'FIRST_COMPLETED':
        pred = lambda: any(f.done() for f in fs) or not fs
    else:
        pred = lambda: all(f.done() for f in fs)
    if not pred():
        try:
            vthreading._wait(pred, timeout, 'wait_futures')
        except WouldBlock:
            raise
    done = set(f for f in fs if f.done())
    return _DoneAndNotDone(done, set(fs) - done)


class VExecutor(object):
    def __init__(self, max_workers=None, **kw):
        self.is_shut = False
        self.world = RT.world
        if self.world is None:
            raise RuntimeError('executor created outside a World')
        self.world.executors.append(self)

    def submit(self, fn, *args, **kwargs):
        if self.is_shut:
            raise RuntimeError('cannot schedule new futures after shutdown')
        label = getattr(fn, '__qualname__', None) or getattr(getattr(fn, 'func', None), '__qualname__', repr(fn))
        fut = VFuture(label)
        self.world.tasks.append((fut, fn, args, kwargs, label, self))
        self.world.trace('submit', label)
        s = RT.sched
        if s is not None:
            s.point('submit', label)
        return fut

    def shutdown(self, wait=True, **kw):
        self.is_shut = True
        if wait and RT.sched is None:
            # ThreadPoolExecutor.shutdown(wait=True) returns after every queued task has run
            self.world.drain_executor(self)
        elif wait and getattr(self.world, 'executor_join', None) is not None:
            # engine S: a harness that models worker threads says how to wait for them
            self.world.executor_join(self)


_RealScheduler = _cluster._Scheduler


class _VSchedQueue(object):
    """Stands in for the scheduler's PriorityQueue: entries go to the world's list, from where the explorer
    (World.fire_sched) moves a due one to the executor as _Scheduler.run() would."""
    def __init__(self, sched):
        self.sched = sched

    def put_nowait(self, item):
        run_at, i, task = item
        if task is None:
            return                      # the wake-up entry of _Scheduler.shutdown()
        w = self.sched.world
        w.sched_tasks.append((run_at, i, task, self.sched))
        w.trace('schedule', round(run_at - w.clock.now, 9), getattr(task[0], '__qualname__', repr(task[0])))


class VScheduler(_RealScheduler):
    """cluster._Scheduler without its thread: schedule(), schedule_unique(), _insert_task() and shutdown() are the
    driver's own code (so a change to them is seen by every check that builds a Cluster); only the queue (above) and
    the run loop (World.fire_sched, one due entry per explorer event) are stand-ins, and the clock is the world's."""
    def __init__(self, executor):
        # _Scheduler.__init__ minus Thread.start()
        self._queue = _VSchedQueue(self)
        self._scheduled_tasks = set()
        self._count = itertools.count()
        self._executor = executor
        self.world = RT.world
        self.world.schedulers.append(self)

    def start(self):
        pass

    def join(self, timeout=None):
        pass

    def run(self):
        raise RuntimeError('the scheduler thread does not exist in a virtual world')


# ---------------------------------------------------------------------------- connection
class VConnection(Connection):
    """Connection over the virtual server.  Implements only what every shipped reactor
    implements itself: __init__ tail, push, close, create_timer."""

    def __init__(self, *args, **kwargs):
        Connection.__init__(self, *args, **kwargs)
        w = RT.world
        if w is None:
            raise RuntimeError('connection created outside a World')
        self.world = w
        self.vid = len(w.conns)
        w.conns.append(self)
        self.pushed = []
        self.close_count = 0
        self.server_state = {}
        w.trace('conn.open', self.vid, str(self.endpoint), 'control' if self.is_control_connection else 'pool')
        w.server.on_connect(self)          # may raise (connection refused)
        self._send_options_message()

    def push(self, data):
        self.pushed.append(bytes(data))
        self.world.server.on_data(self, bytes(data))

    def close(self):
        with self.lock:
            if self.is_closed:
                return
            self.is_closed = True
        self.close_count += 1
        self.world.trace('conn.close', self.vid)
        for hook in self.world.close_hooks:
            hook(self)
        if not self.is_defunct:
            self.error_all_requests(ConnectionShutdown("Connection to %s was closed" % self.endpoint))
            self.connected_event.set()

    def feed(self, data):
        """What a reactor's handle_read does with bytes read from the socket."""
        if self.is_closed or self.is_defunct:
            return
        self._iobuf.write(data)
        # waiting made visible: a read loop that stops consuming its buffer would spin for ever
        import signal
        try:
            old = signal.signal(signal.SIGVTALRM, _on_feed_alarm)
        except ValueError:              # not the main thread (engine S worker): no guard available
            self.process_io_buffer()
            return
        prev = signal.setitimer(signal.ITIMER_VIRTUAL, _feed_budget())
        try:
            self.process_io_buffer()
        finally:
            signal.setitimer(signal.ITIMER_VIRTUAL, *prev) if prev[0] else signal.setitimer(signal.ITIMER_VIRTUAL, 0)
            signal.signal(signal.SIGVTALRM, old)

    @classmethod
    def create_timer(cls, timeout, callback):
        w = RT.world
        t = Timer(timeout, callback)
        t.seq = next(w.timer_seq)
        w.timers.append(t)
        return t

    def __repr__(self):
        return '<VConnection #%d %s>' % (self.vid, self.endpoint)


FEED_CPU_BUDGET = 5.0
_FEED_STATE = {'livelocks': 0}


class Livelock(BaseException):
    """process_io_buffer() did not return within its CPU budget (BaseException: the driver's broad
    `except Exception` handlers must not swallow it)."""


def _on_feed_alarm(sig, frame):
    _FEED_STATE['livelocks'] += 1
    raise Livelock('process_io_buffer still running after %.1f s of CPU time' % _feed_budget(before=True))


def _feed_budget(before=False):
    # once a read loop has been caught spinning in this process, later reads get a short budget: the run
    # is failing anyway and every further spinning read would cost the full budget again
    n = _FEED_STATE['livelocks'] - (1 if before else 0)
    return FEED_CPU_BUDGET if n <= 0 else 0.5


# ---------------------------------------------------------------------------- server
class HostSpec(object):
    def __init__(self, address, dc='dc1', rack='r1', tokens=None, host_id=None, release_version='4.0.0',
                 schema_version=None, up=True):
        self.address, self.dc, self.rack = address, dc, rack
        self.tokens = tokens
        n = int(address.split('.')[-1])
        self.host_id = host_id or uuid.UUID(int=0x1000 + n)
        self.release_version = release_version
        self.schema_version = schema_version or uuid.UUID(int=0xabc)
        self.up = up                 # accepts connections
        self.extra = {}

    def local_row(self):
        r = {'key': 'local', 'host_id': self.host_id, 'cluster_name': 'vcluster', 'data_center': self.dc,
             'rack': self.rack, 'partitioner': 'org.apache.cassandra.dht.Murmur3Partitioner',
             'release_version': self.release_version, 'schema_version': self.schema_version,
             'rpc_address': self.address, 'broadcast_address': self.address, 'listen_address': self.address,
             'tokens': self.tokens}
        r.update(self.extra)
        return r

    def peer_row(self):
        r = {'peer': self.address, 'peer_port': 7000, 'host_id': self.host_id, 'data_center': self.dc,
             'rack': self.rack, 'rpc_address': self.address, 'native_address': self.address,
             'native_port': 9042, 'release_version': self.release_version,
             'schema_version': self.schema_version, 'tokens': self.tokens}
        r.update(self.extra)
        return r


COLTYPES = {
    'key': wire.T_VARCHAR, 'host_id': wire.T_UUID, 'cluster_name': wire.T_VARCHAR, 'data_center': wire.T_VARCHAR,
    'rack': wire.T_VARCHAR, 'partitioner': wire.T_VARCHAR, 'release_version': wire.T_VARCHAR,
    'schema_version': wire.T_UUID, 'rpc_address': wire.T_INET, 'broadcast_address': wire.T_INET,
    'listen_address': wire.T_INET, 'tokens': ('set', wire.T_VARCHAR), 'peer': wire.T_INET,
    'peer_port': wire.T_INT, 'native_address': wire.T_INET, 'native_port': wire.T_INT,
    'dse_version': wire.T_VARCHAR, 'workload': wire.T_VARCHAR,
}
LOCAL_COLS = ['key', 'host_id', 'cluster_name', 'data_center', 'rack', 'partitioner', 'release_version',
              'schema_version', 'rpc_address', 'broadcast_address', 'listen_address', 'tokens']
PEERS_COLS = ['peer', 'host_id', 'data_center', 'rack', 'rpc_address', 'release_version', 'schema_version', 'tokens']
PEERS_V2_COLS = ['peer', 'peer_port', 'host_id', 'data_center', 'rack', 'native_address', 'native_port',
                 'release_version', 'schema_version', 'tokens']


class Pending(object):
    """A request the server has received and not yet answered."""
    def __init__(self, conn, stream, req, seq):
        self.conn, self.stream, self.req, self.seq = conn, stream, req, seq
        self.answered = False

    def __repr__(self):
        return '<Pending c%d s%d %s>' % (self.conn.vid, self.stream, self.req.get('op'))


class VServer(object):
    def __init__(self, hosts=None, peers_v2=True, compression=(), authenticator=None):
        self.hosts = hosts or [HostSpec('10.0.0.1')]
        self.peers_v2 = peers_v2
        self.compression = list(compression)
        self.authenticator = authenticator     # class name string -> AUTHENTICATE is sent
        self.received = []       # (conn vid, stream, req) in arrival order
        self.pending = []        # held requests (Pending)
        self.outbox = collections.deque()   # (conn, bytes) auto responses awaiting delivery
        self.seq = itertools.count()
        self.hold = lambda conn, req: False   # policy: True => leave for the explorer
        self.on_request = None   # optional override: fn(server, conn, stream, req) -> body tuple or None
        self.peer_rows_override = None   # callable(conn) -> list of row dicts (C42)
        self.local_row_override = None
        self.prepared = {}
        self.keyspaces = set()
        self.supported_versions = None   # None = all; else set of ints

    # -- helpers
    def host_of(self, conn):
        for h in self.hosts:
            if h.address == conn.endpoint.address:
                return h
        return None

    def on_connect(self, conn):
        h = self.host_of(conn)
        conn.server_state = {'buf': b'', 'framed': False, 'segreader': None, 'keyspace': None}
        if h is None or not h.up:
            conn.world.trace('conn.refused', conn.vid)
            import errno
            raise OSError(errno.ECONNREFUSED, 'Tried connecting to [(%r, 9042)]. Last error: Connection refused'
                          % (conn.endpoint.address,))

    def on_data(self, conn, data):
        st = conn.server_state
        if st['framed']:
            data = st['segreader'].feed(data)
        st['buf'] += data
        while True:
            hdr = wire.parse_header(st['buf'])
            if hdr is None:
                return
            v, flags, stream, op, ln, hs = hdr
            if len(st['buf']) < hs + ln:
                return
            body = st['buf'][hs:hs + ln]
            st['buf'] = st['buf'][hs + ln:]
            if flags & wire.FLAG_COMPRESSED:
                req = {'op': wire.OPNAMES.get(op, hex(op)), 'compressed': True, 'raw': body}
            else:
                req = wire.parse_request(v, flags, op, body)
            req['version'] = v
            req['flags_hdr'] = flags
            self.received.append((conn.vid, stream, req))
            conn.world.trace('srv.recv', conn.vid, stream, req['op'], req.get('query', ''))
            p = Pending(conn, stream, req, next(self.seq))
            if self.hold(conn, req):
                self.pending.append(p)
            else:
                self.answer(p)

    # -- responding
    def wrap(self, conn, frame_bytes):
        if conn.server_state['framed']:
            return wire.segments_for(frame_bytes)
        return frame_bytes

    def respond(self, p, op, body, deliver=False, **kw):
        """Build the response frame for pending request p; queue it (or deliver now)."""
        v = p.req['version']
        data = self.wrap(p.conn, wire.frame(v, p.stream, op, body, **kw))
        p.answered = True
        if p in self.pending:
            self.pending.remove(p)
        # framing switches on after READY/AUTHENTICATE answer to STARTUP
        if p.req['op'] == 'STARTUP' and wire.uses_segments(v) and op in (wire.OP_READY, wire.OP_AUTHENTICATE):
            p.conn.server_state['framed'] = True
            p.conn.server_state['segreader'] = wire.SegmentReader()
        if deliver:
            p.conn.feed(data)
        else:
            self.outbox.append((p.conn, data))

    def answer(self, p, deliver=False):
        """Default (auto) answer."""
        op, body = self.default_response(p)
        self.respond(p, op, body, deliver=deliver)

    def default_response(self, p):
        req, conn = p.req, p.conn
        v = req['version']
        if self.supported_versions is not None and v not in self.supported_versions:
            return wire.OP_ERROR, wire.error(wire.ERR_PROTOCOL, 'Invalid or unsupported protocol version (%d)' % v)
        if self.on_request is not None:
            r = self.on_request(self, conn, p.stream, req)
            if r is not None:
                return r
        op = req['op']
        if op == 'OPTIONS':
            return wire.OP_SUPPORTED, wire.supported({'CQL_VERSION': ['3.4.5'], 'COMPRESSION': self.compression})
        if op == 'STARTUP':
            if self.authenticator:
                return wire.OP_AUTHENTICATE, wire.w_string(self.authenticator)
            return wire.OP_READY, b''
        if op == 'REGISTER':
            return wire.OP_READY, b''
        if op == 'AUTH_RESPONSE':
            return wire.OP_AUTH_SUCCESS, wire.w_bytes(None)
        if op == 'QUERY':
            q = req['query']
            sysr = self.system_query(conn, q, v)
            if sysr is not None:
                return sysr
            ql = q.strip().lower()
            if ql.startswith('use '):
                ks = q.strip()[4:].strip().strip('"')
                conn.server_state['keyspace'] = ks
                return wire.OP_RESULT, wire.result_set_keyspace(ks)
            return wire.OP_RESULT, wire.result_void()
        if op == 'PREPARE':
            qid = ('q%08x' % (hash(req['query']) & 0xffffffff)).encode()
            self.prepared[qid] = req['query']
            return wire.OP_RESULT, wire.result_prepared(qid, [], [], v)
        if op in ('EXECUTE', 'BATCH'):
            return wire.OP_RESULT, wire.result_void()
        return wire.OP_ERROR, wire.error(wire.ERR_PROTOCOL, 'unexpected opcode %s' % op)

    def system_query(self, conn, q, v):
        ql = ' '.join(q.lower().split())
        if ' from system.' not in ql:
            return None
        table = ql.split(' from ')[1].split()[0]
        cols_txt = ql[len('select '):ql.index(' from ')]
        me = self.host_of(conn)
        if table == 'system.local':
            allcols, rows = LOCAL_COLS, [self.local_row_override(conn) if self.local_row_override else me.local_row()]
        elif table == 'system.peers_v2':
            if not self.peers_v2:
                return wire.OP_ERROR, wire.error(wire.ERR_INVALID, 'unconfigured table peers_v2')
            allcols = PEERS_V2_COLS
            rows = self.peer_rows_override(conn) if self.peer_rows_override else \
                [h.peer_row() for h in self.hosts if h is not me]
        elif table == 'system.peers':
            allcols = PEERS_COLS
            rows = self.peer_rows_override(conn) if self.peer_rows_override else \
                [h.peer_row() for h in self.hosts if h is not me]
        else:
            return wire.OP_RESULT, wire.result_rows([], [], v)
        if cols_txt.strip() == '*':
            cols = list(allcols)
            extra = sorted(set(k for r in rows for k in r) - set(allcols))
            cols += [c for c in extra if c in COLTYPES]
        else:
            cols = [c.strip() for c in cols_txt.split(',')]
        unknown = [c for c in cols if c not in COLTYPES]
        if unknown:
            return wire.OP_ERROR, wire.error(wire.ERR_INVALID, 'Undefined column name %s' % unknown[0])
        columns = [(c, COLTYPES[c]) for c in cols]
        data = [[r.get(c) for c in cols] for r in rows]
        return wire.OP_RESULT, wire.result_rows(columns, data, v, ks='system', table=table.split('.')[1])

    def push_event(self, conn, body, deliver=True):
        data = self.wrap(conn, wire.frame(conn.protocol_version, -1, wire.OP_EVENT, body))
        if deliver:
            conn.feed(data)
        else:
            self.outbox.append((conn, data))


# ---------------------------------------------------------------------------- world
class World(object):
    def __init__(self, server=None, manual=False, trace=False):
        self.clock = VClock()
        self.timers = []
        self.timer_seq = itertools.count()
        self.sched_tasks = []
        self.tasks = collections.deque()
        self.thread_tasks = collections.deque()
        self.executors = []
        self.schedulers = []
        self.conns = []
        self.close_hooks = []
        self.server = server or VServer()
        self.manual = manual          # True: pump() never runs executor/scheduler tasks
        self.clock_reads = 0
        self.sleeps = 0
        self.max_sleeps = 10000
        self.timed_out_waits = []
        self.events = [] if trace else None
        self._pumping = 0
        self.clusters = []

    # -- context
    def __enter__(self):
        self._prev = RT.world
        RT.world = self
        install_seams()
        return self

    def __exit__(self, *a):
        for c in self.clusters:
            try:
                _cluster._discard_cluster_shutdown(c)
            except Exception:
                pass
        RT.world = self._prev

    def trace(self, *ev):
        if self.events is not None:
            self.events.append(ev)

    def note_timed_out_wait(self, what, timeout):
        self.timed_out_waits.append((what, timeout))

    # -- progress
    def deliver_outbox(self, limit=None):
        n = 0
        while self.server.outbox and (limit is None or n < limit):
            conn, data = self.server.outbox.popleft()
            conn.feed(data)
            n += 1
        return n

    def run_task(self, index=0):
        """Run the index-th queued executor task to completion."""
        fut, fn, args, kwargs, label, ex = self.tasks[index]
        del self.tasks[index]
        self.trace('task.run', label)
        if fut.cancelled():
            return
        fut._running = True
        try:
            r = fn(*args, **kwargs)
        except WouldBlock:
            raise
        except BaseException as e:
            if not isinstance(e, Exception):
                raise
            fut._running = False
            fut.set_exception(e)
        else:
            fut._running = False
            fut.set_result(r)

    def run_thread_task(self, index=0):
        th = self.thread_tasks[index]
        del self.thread_tasks[index]
        self.trace('thread.run', th.name)
        th._body()

    def add_thread_task(self, th):
        self.thread_tasks.append(th)

    def due_sched(self):
        return sorted((t for t in self.sched_tasks if t[0] <= self.clock.now), key=lambda t: (t[0], t[1]))

    def fire_sched(self, entry):
        """Move one scheduled task to the executor (what _Scheduler.run does when it is due)."""
        self.sched_tasks.remove(entry)
        run_at, _, task, sch = entry
        self.clock.advance_to(run_at)
        if sch.is_shutdown:
            return
        sch._scheduled_tasks.discard(task)
        fn, args, kwargs = task
        try:
            sch._executor.submit(fn, *args, **dict(kwargs))
        except RuntimeError:
            pass

    def live_timers(self):
        self.timers = [t for t in self.timers if not t.canceled and not getattr(t, 'fired', False)]
        return sorted(self.timers, key=lambda t: (t.end, t.seq))

    def advance_time(self, d):
        """Time passes while the current (single) thread of control is blocked in a timed wait or
        sleep: the reactor thread would run every connection timer that falls due meanwhile, so
        they fire here, in deadline order, before the clock reaches its new value."""
        target = self.clock.now + max(d, 0)
        guard = 0
        while True:
            guard += 1
            if guard > 10000:
                raise WouldBlock('timers keep re-arming while time advances')
            live = self.live_timers()
            if not live or live[0].end > target:
                break
            self.fire_timer(live[0])
        self.clock.advance_to(target)

    def fire_timer(self, t):
        self.clock.advance_to(t.end)
        t.fired = True
        self.timers.remove(t)
        self.trace('timer.fire', t.end)
        t.finish(self.clock.now)

    def pump(self, pred=None):
        """Make progress without choices: deliver auto responses; unless manual, also run queued
        tasks, due scheduler entries and queued thread bodies (FIFO)."""
        self._pumping += 1
        if self._pumping > 50:
            self._pumping -= 1
            raise WouldBlock('pump recursion')
        try:
            guard = 0
            while True:
                guard += 1
                if guard > 100000:
                    raise WouldBlock('pump does not quiesce')
                if pred is not None and pred():
                    return
                if self.server.outbox:
                    self.deliver_outbox(1)
                    continue
                if not self.manual:
                    if self.tasks:
                        self.run_task(0)
                        continue
                    due = self.due_sched()
                    if due:
                        self.fire_sched(due[0])
                        continue
                    if self.thread_tasks:
                        self.run_thread_task(0)
                        continue
                return
        finally:
            self._pumping -= 1

    def drain_executor(self, ex):
        guard = 0
        while True:
            guard += 1
            if guard > 100000:
                raise WouldBlock('executor does not drain')
            idx = next((i for i, t in enumerate(self.tasks) if t[5] is ex), None)
            if idx is None:
                return
            self.run_task(idx)
            self.deliver_outbox()

    def settle(self, advance=False):
        """Run to quiescence in auto mode (setup phases)."""
        prev, self.manual = self.manual, False
        try:
            self.pump()
        finally:
            self.manual = prev

    # -- convenience
    def make_cluster(self, **kw):
        from cassandra.cluster import Cluster, ExecutionProfile, EXEC_PROFILE_DEFAULT
        from cassandra.policies import RoundRobinPolicy
        kw.setdefault('contact_points', [self.server.hosts[0].address])
        kw.setdefault('connection_class', VConnection)
        kw.setdefault('protocol_version', 4)
        kw.setdefault('schema_metadata_enabled', False)
        kw.setdefault('token_metadata_enabled', False)
        kw.setdefault('monitor_reporting_enabled', False)
        kw.setdefault('idle_heartbeat_interval', 0)
        if 'execution_profiles' not in kw and 'load_balancing_policy' not in kw:
            kw['execution_profiles'] = {EXEC_PROFILE_DEFAULT: ExecutionProfile(load_balancing_policy=RoundRobinPolicy())}
        c = Cluster(**kw)
        self.clusters.append(c)
        return c


_seams_done = False


def install_seams():
    """Rebind the module-level names through which the driver reaches threads, time, executors
    and randomness.  Static and idempotent: the stand-ins consult RT.world / RT.sched."""
    global _seams_done
    if _seams_done:
        return
    _seams_done = True
    vt = _VTime
    for mod in (_cluster, _pool, _connection, _timestamps):
        mod.time = vt
    _cluster.ThreadPoolExecutor = VExecutor
    _cluster._Scheduler = VScheduler
    _cluster.wait_futures = v_wait_futures
    _cluster.Lock, _cluster.RLock, _cluster.Event, _cluster.Thread = VLock, VRLock, VEvent, VThread
    _pool.Lock, _pool.RLock, _pool.Condition = VLock, VRLock, VCondition
    _connection.Thread, _connection.Event, _connection.RLock, _connection.Condition = VThread, VEvent, VRLock, VCondition
    _policies.Lock = VLock
    _metadata.RLock = VRLock
    _timestamps.Lock = VLock
    _concurrent.Condition = VCondition
    _cluster.random = lambda: 0.0
