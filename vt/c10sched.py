"""Schedule layer of C10: a real handshaken Connection with a few requests outstanding fails on its reactor
thread (defunct(OSError) / close() / an undecodable frame / an ERROR ProtocolError frame; optionally a
second thread calls close() at the same time, as a pool shutting down does) while client threads do what
HostConnection.borrow_connection + ResponseFuture._query do: take a stream id under the lock and call
send_msg with a callback.  Scheduling points: every virtual primitive and every source line of
Connection.defunct / error_all_requests (and the functions nested in it) / error_all_cp_sessions / send_msg /
process_msg and of the reactor's close().

Second family (params['responses']): the reactor thread reads and processes the normal response of one or two
outstanding requests (feed -> process_io_buffer -> process_msg, which takes the handler out of the request table)
while ANOTHER thread fails the connection (defunct(OSError) as a heartbeat failure / a writer's socket error does,
close() as a pool or cluster shutting down does, or both on two threads); every schedule with <= 2 preemptions,
so that the failing thread can be stopped between any two lines of error_all_requests with the reactor thread
stopped between any two lines of process_msg.  A request whose response is processed during the race may be
completed by that response or by the connection error, exactly once.

Oracle (per execution, after every thread including the error-callbacks thread has ended):
  * a send that STARTS when the connection is already marked (is_defunct or is_closed set: read by the client
    thread immediately before the call, no scheduling point in between) is refused with ConnectionShutdown;
  * every request whose send_msg returned normally (before or during the failure) has had its callback invoked
    exactly once, with a connection error; a refused send's callback is never invoked;
  * no handler stays registered on the dead connection; no deadlock / livelock.
"""
from vt import sched
from vt.core import HarnessError

VERSION = 0x42


def _codes(fn):
    """code object of fn and of every function nested in it"""
    fn = getattr(fn, '__func__', fn)
    fn = getattr(fn, '__wrapped__', fn)
    out = []

    def walk(co):
        out.append(co)
        for c in co.co_consts:
            if hasattr(c, 'co_code'):
                walk(c)
    walk(fn.__code__)
    return out


def focus():
    from cassandra.connection import Connection
    from vt.world.vworld import VConnection
    out = []
    for f in (Connection.defunct, Connection.error_all_requests, Connection.error_all_cp_sessions, Connection.send_msg,
              Connection.process_msg, VConnection.close):
        out.extend(_codes(f))
    return out


_FOCUS = []


def classify(x):
    from cassandra.connection import ConnectionShutdown, ConnectionException
    from cassandra.protocol import ErrorMessage
    if isinstance(x, ConnectionShutdown):
        return 'ConnectionShutdown'
    if isinstance(x, ConnectionException):
        return 'ConnectionException'
    if isinstance(x, ErrorMessage):
        return 'ErrorMessage'
    if isinstance(x, BaseException):
        return 'exc:' + type(x).__name__
    return 'resp:' + type(x).__name__


class Rq(object):
    def __init__(self, name, behaviour):
        self.name, self.behaviour = name, behaviour
        self.stream = None
        self.calls = []
        self.sent = None             # 'accepted' | 'ConnectionShutdown' | 'exc:...'
        self.marked_before = None    # connection already marked when the send started (racing sends only)
        self.own_fault = False       # the fault frame arrived on this request's stream
        self.responded = False       # the reactor thread was handed this request's normal response during the race


class HandlerRaises(RuntimeError):
    pass


def _callback(rq):
    def cb(resp):
        rq.calls.append(classify(resp))
        if rq.behaviour == 'raises':
            raise HandlerRaises('handler of %s raises' % rq.name)
    return cb


@sched.gc_quiet
def harness(params, prefix, part):
    """params: pre = handler behaviours ('returns' | 'raises') of the requests outstanding before the race,
    faults = one fault per fault thread ('defunct' | 'close' | 'garbage' | 'proto'; the frame faults hit the
    stream of the first pre request, whose handler returns), sends = handler behaviours of the racing sends
    (one client thread each), threshold = CALLBACK_ERR_THREAD_THRESHOLD or None (driver default).
    responses (optional) = indexes of pre requests whose normal RESULT frame the reactor thread reads and processes
    (feed -> process_io_buffer -> process_msg), in that order, during the race; every fault then runs on a thread of
    its own (a heartbeat failure / pool or cluster shutdown / a writer reporting a socket error), except a frame
    fault, which the reactor thread reads after the responses."""
    from vt.world.vworld import World, VServer
    from vt.world import wire
    from vt import connlib
    from cassandra.connection import Connection, ConnectionShutdown
    from cassandra.protocol import QueryMessage
    if not _FOCUS:
        _FOCUS.extend(focus())
    srv = VServer()
    w = World(srv, manual=True)
    saved = Connection.CALLBACK_ERR_THREAD_THRESHOLD
    pre = [Rq('pre%d' % i, b) for i, b in enumerate(params['pre'])]
    racing = [Rq('send%d' % i, b) for i, b in enumerate(params['sends'])]
    with w:
        try:
            if params.get('threshold'):
                Connection.CALLBACK_ERR_THREAD_THRESHOLD = params['threshold']
            conn = connlib.bare_connection(w, VERSION)
            srv.hold = lambda c, r: True

            def send(rq):
                with conn.lock:                  # HostConnection.borrow_connection
                    conn.in_flight += 1
                    rq.stream = conn.get_request_id()
                rq.marked_before = bool(conn.is_defunct or conn.is_closed)
                try:
                    conn.send_msg(QueryMessage('SELECT * FROM t', 1), rq.stream, _callback(rq))
                    rq.sent = 'accepted'
                except ConnectionShutdown:
                    rq.sent = 'ConnectionShutdown'
                except sched.Abort:
                    raise
                except Exception as e:
                    rq.sent = 'exc:' + type(e).__name__
            for rq in pre:
                send(rq)
                if rq.sent != 'accepted':
                    raise HarnessError('setup send refused: %r' % rq.sent)
            s = sched.Scheduler(prefix, focus=_FOCUS, horizon=20000, clock=w.clock)

            def fault_thread(what):
                def body():
                    if what == 'defunct':
                        conn.defunct(OSError(104, 'Connection reset by peer'))
                    elif what == 'close':
                        conn.close()
                    else:
                        pre[0].own_fault = True
                        if what == 'garbage':
                            data = wire.frame(VERSION, pre[0].stream, wire.OP_RESULT, b'\x00\x00')
                        else:
                            data = wire.frame(VERSION, pre[0].stream, wire.OP_ERROR, wire.error(wire.ERR_PROTOCOL, 'Invalid value for opcode'))
                        conn.feed(data)
                return body
            responses = list(params.get('responses') or [])
            faults = list(params['faults'])
            if responses:
                tail = None
                if faults and faults[0] in ('garbage', 'proto'):
                    tail = fault_thread(faults.pop(0))
                if any(f in ('garbage', 'proto') for f in faults):
                    raise HarnessError('frames are read by the one reactor thread: only the first fault may be a frame')

                def reactor():
                    for i in responses:
                        pre[i].responded = True
                        conn.feed(wire.frame(VERSION, pre[i].stream, wire.OP_RESULT, wire.result_void()))
                    if tail is not None:
                        tail()
                s.spawn(reactor, 'reactor')
                for i, what in enumerate(faults):
                    s.spawn(fault_thread(what), 'failer%d' % i)
            else:
                for i, what in enumerate(faults):
                    s.spawn(fault_thread(what), 'reactor' if i == 0 else 'closer')
            for rq in racing:
                s.spawn(lambda rq=rq: send(rq), rq.name)
            s.run()
            left = sorted(conn._requests)
            down = bool(conn.is_closed or conn.is_defunct)
            flags = (conn.is_defunct, conn.is_closed)
        finally:
            Connection.CALLBACK_ERR_THREAD_THRESHOLD = saved
    data = {'layer': 'sched', 'params': params, 'prefix': s.choices()}
    cls = '+'.join(params['faults']) + ('/while-processing-response' if params.get('responses') else '')
    tag = 't%s' % params['threshold'] if params.get('threshold') else 'inline'
    if s.failure:
        part.violation('C10/sched/%s/%s' % (s.failure[0], cls), '%s; case %r' % (s.failure[1], data), data)
        return s
    for t in s.threads:
        if t.exc is not None:
            raise HarnessError('%r in virtual thread %s of case %r\n%s' % (t.exc, t.name, data, getattr(t, 'exc_tb', '')))
    if w.thread_tasks:
        raise HarnessError('a thread was queued on the world instead of the scheduler')
    if not down:
        part.violation('C10/sched/fault-ignored/%s' % cls, 'connection still open after %s; case %r' % (cls, data), data)
        return s

    def viol(fp, what):
        part.violation('C10/sched/%s' % fp, '%s; flags (defunct, closed)=%r; requests %r; case %r' % (
            what, flags, [(r.name, r.behaviour, r.sent, r.marked_before, r.responded, r.calls) for r in pre + racing], data), data)
    for r in pre + racing:
        kind = 'racing-send' if r in racing else 'outstanding'
        n = len(r.calls)
        if r.sent == 'accepted':
            if r.marked_before:
                viol('send-not-refused/after-%s' % cls, 'send_msg that started on a connection already marked defunct/closed was accepted')
            if n == 0:
                viol('never-failed/%s/after-%s/%s' % (kind, cls, tag), '%s (stream %s, handler %s): send_msg returned normally, the connection failed, '
                     'the handler was never invoked' % (r.name, r.stream, r.behaviour))
            elif n > 1:
                viol('invoked-twice/%s/after-%s/%s' % (kind, cls, tag), '%s handler invoked %d times: %r' % (r.name, n, r.calls))
            else:
                c = r.calls[0]
                ok = c in ('ConnectionShutdown', 'ConnectionException') or (r.own_fault and (c.startswith('exc:') or c == 'ErrorMessage')) \
                    or (r.responded and c == 'resp:ResultMessage')     # its response won the race: no longer outstanding
                if not ok:
                    viol('failed-with-non-connection-error/%s/after-%s' % (kind, cls), '%s completed with %s' % (r.name, c))
        elif r.sent == 'ConnectionShutdown':
            if n:
                viol('callback-of-refused-send/after-%s' % cls, 'callback of the refused send %s invoked: %r' % (r.name, r.calls))
        else:
            viol('send-raised-%s/after-%s' % (r.sent, cls), 'send_msg of %s ended with %s' % (r.name, r.sent))
    if left:
        viol('handlers-left-registered/after-%s' % cls, 'streams %r still registered on the dead connection' % (left,))
    part.outcome(('sched', cls, tag, tuple(r.sent for r in racing), tuple(sorted(set(c for r in pre + racing for c in r.calls)))))
    if any(p.chosen for p in s.trace):
        part.mark_nontrivial(repr((params, s.choices())))
    if any(r.sent == 'accepted' for r in racing) or any(r.responded and r.calls == ['resp:ResultMessage'] for r in pre):
        part.sample({'sched_case': params, 'choices': s.choices(), 'requests': [(r.name, r.sent, r.calls) for r in pre + racing]}, limit=1)
    return s


def configs(thorough):
    """(params, preemption bound)"""
    out = []
    R, X = 'returns', 'raises'
    for fault in ('defunct', 'close', 'garbage', 'proto'):
        out.append(({'pre': [R, R], 'faults': [fault], 'sends': [R]}, 1))
    out.append(({'pre': [R, X, R], 'faults': ['defunct'], 'sends': [R]}, 1))
    out.append(({'pre': [R, X, R], 'faults': ['close'], 'sends': [X]}, 1))
    out.append(({'pre': [R, R, R], 'faults': ['defunct'], 'sends': [R], 'threshold': 2}, 1))
    out.append(({'pre': [R, R], 'faults': ['defunct', 'close'], 'sends': [R]}, 1))
    out.append(({'pre': [R], 'faults': ['defunct'], 'sends': [R, R]}, 1))
    out.extend(response_configs(thorough))
    if thorough:
        for fault in ('defunct', 'close', 'garbage', 'proto'):
            out.append(({'pre': [R, R], 'faults': [fault], 'sends': [R]}, 2))
            out.append(({'pre': [R, X, R, R], 'faults': [fault], 'sends': [R], 'threshold': 2}, 1))
            out.append(({'pre': [R], 'faults': [fault], 'sends': [R, X]}, 1))
            if fault != 'defunct':
                out.append(({'pre': [R, R], 'faults': [fault, 'close'], 'sends': [R]}, 1))
        out.append(({'pre': [R], 'faults': ['defunct'], 'sends': [R, X]}, 2))      # three threads, two preemptions
        out.append(({'pre': [], 'faults': ['close'], 'sends': [R]}, 3))
    return out


def response_configs(thorough):
    """the reactor thread processes the response of an outstanding request while another thread fails the connection"""
    out = []
    R, X = 'returns', 'raises'
    for fault in ('defunct', 'close'):
        out.append(({'pre': [R, R], 'responses': [0], 'faults': [fault], 'sends': []}, 2))
    out.append(({'pre': [R, X, R], 'responses': [1], 'faults': ['defunct'], 'sends': []}, 2))
    out.append(({'pre': [R, R, R], 'responses': [0], 'faults': ['defunct'], 'sends': [], 'threshold': 2}, 2))
    out.append(({'pre': [R, R], 'responses': [1], 'faults': ['defunct', 'close'], 'sends': []}, 1))
    out.append(({'pre': [R, R], 'responses': [0], 'faults': ['close'], 'sends': [R]}, 1))
    if thorough:
        for fault in ('defunct', 'close'):
            out.append(({'pre': [X, R, R], 'responses': [0, 1], 'faults': [fault], 'sends': [], 'threshold': 2}, 2))
            out.append(({'pre': [R, R], 'responses': [1], 'faults': [fault], 'sends': [X]}, 1))
        out.append(({'pre': [R, X, R], 'responses': [1, 2], 'faults': ['defunct'], 'sends': []}, 2))
        for frame in ('garbage', 'proto'):
            out.append(({'pre': [R, R, R], 'responses': [1], 'faults': [frame, 'close'], 'sends': []}, 2))
    return out


def root(job):
    from vt.core import Part
    from vt import connlib
    connlib.quiet_driver_logs()
    params, bound = job
    part = Part()
    s = harness(params, [], part)
    part.count('sched_executions')
    part.count('sched_steps', s.steps)
    return part, [k for k, _ in sched.children(s.trace, 0, bound)], len(s.trace)


def sub(job):
    from vt.core import Part
    from vt import connlib
    connlib.quiet_driver_logs()
    params, bound, frontier = job
    part = Part()
    while frontier:
        nxt = []
        for prefix in frontier:
            s = harness(params, prefix, part)
            part.count('sched_executions')
            part.count('sched_steps', s.steps)
            nxt.extend(k for k, _ in sched.children(s.trace, len(prefix), bound))
        frontier = nxt
    return part
