"""Engine S: stateless schedule exploration with iterative preemption bounding.

Virtual threads are real OS threads that run one at a time (baton = one semaphore per thread).
Scheduling points: every blocking virtual primitive (vt.vthreading) and every source line of
the harness's focus functions (sys.settrace line events).  A run is determined by its list of
choices; `explore()` enumerates all runs with at most `bound` preemptions (CHESS).
"""
import sys
import threading
import time as _time
import traceback

from vt import vthreading
from vt.core import HarnessError, Part, jsonable


def gc_quiet(fn):
    """Decorator for harness functions fn(params, prefix, part) -> Scheduler.  The cyclic garbage collector
    must not run inside an execution: Session.__del__ calls shutdown(), which takes virtual locks, so a
    collection that happens to start in a virtual thread (of this or of the previous execution's dead
    world) would insert scheduling points at GC-chosen moments and make replays diverge.  Collection is
    switched off for the execution and done right after it, outside any scheduler."""
    import functools
    import gc

    @functools.wraps(fn)
    def wrapper(*a, **kw):
        was = gc.isenabled()
        gc.disable()
        try:
            return fn(*a, **kw)
        finally:
            _GC_COUNT[0] += 1
            if _GC_COUNT[0] % GC_EVERY == 0:
                gc.collect()
            if was:
                gc.enable()
    return wrapper


_GC_COUNT = [0]
GC_EVERY = 1


class Abort(BaseException):
    """Raised inside virtual threads to unwind them when an execution is torn down."""


class _Worker(object):
    """A long-lived OS thread that carries one virtual thread per execution (creating an OS thread costs
    several milliseconds on this machine, far more than a typical execution)."""
    def __init__(self):
        self.job = None
        self.go = threading.Semaphore(0)
        self.idle = threading.Event()
        self.idle.set()
        self.thread = threading.Thread(target=self._main, name='vt-worker')
        self.thread.daemon = True
        self.thread.start()

    def _main(self):
        while True:
            self.go.acquire()
            job, self.job = self.job, None
            try:
                job()
            finally:
                self.idle.set()

    def give(self, job):
        self.idle.clear()
        self.job = job
        self.go.release()


_WORKERS = {'pid': None, 'workers': []}


def _worker(i):
    import os
    if _WORKERS['pid'] != os.getpid():            # threads do not survive fork()
        _WORKERS['pid'], _WORKERS['workers'] = os.getpid(), []
    ws = _WORKERS['workers']
    while len(ws) <= i:
        ws.append(_Worker())
    return ws[i]


class VT(object):
    def __init__(self, tid, name, target):
        self.tid, self.name, self.target = tid, name, target
        self.sem = threading.Semaphore(0)
        self.finished = False
        self.started = False
        self.waiting = None       # predicate or None
        self.deadline = None
        self.timed_out = False
        self.what = None
        self.exc = None
        self.os_thread = None

    def __repr__(self):
        return 'T%d:%s' % (self.tid, self.name)


class Point(object):
    __slots__ = ('n', 'chosen', 'cur_enabled', 'kind', 'info', 'cost')

    def __init__(self, n, chosen, cur_enabled, kind, info, cost):
        self.n, self.chosen, self.cur_enabled, self.kind, self.info, self.cost = n, chosen, cur_enabled, kind, info, cost


class Scheduler(object):
    def __init__(self, prefix=(), focus=(), horizon=20000, clock=None, timeouts_as_choices=False,
                 focus_files=()):
        self.prefix = list(prefix)
        self.trace = []            # list of Point (only real choice points: n > 1)
        self.threads = []
        self.current = None
        self.focus = set(focus)    # code objects
        self.focus_files = tuple(focus_files)
        self.horizon = horizon
        self.steps = 0
        self.aborting = False
        self.failure = None        # ('deadlock'|'livelock'|'exception', details)
        self.done_evt = threading.Event()
        self.clock = clock         # object with .now and .advance_to(t); optional
        self.timeouts_as_choices = timeouts_as_choices
        self.log = []              # (tid, kind, info) every step, for digests
        self.monitor = None        # optional callable invoked at every scheduling point

    # ------------------------------------------------------------------ time
    def clock_now(self):
        return self.clock.now if self.clock is not None else 0.0

    # ------------------------------------------------------------------ threads
    def spawn(self, target, name=None):
        vt = VT(len(self.threads), name or 'T%d' % len(self.threads), target)
        w = _worker(vt.tid)
        if not w.idle.wait(10.0):
            _WORKERS['workers'] = []
            raise HarnessError('worker thread of a previous execution is still busy')
        vt.os_thread = w.thread
        vt.worker = w
        self.threads.append(vt)
        w.give(lambda: self._bootstrap(vt))
        return vt

    def _bootstrap(self, vt):
        vt.sem.acquire()
        vt.started = True
        try:
            if self.aborting:
                return
            if self.focus or self.focus_files:
                sys.settrace(self._tracer)
            try:
                vt.target()
            finally:
                sys.settrace(None)
        except Abort:
            pass
        except vthreading.WouldBlock as e:
            vt.exc = e
            self._fail('exception', 'WouldBlock in %r: %s' % (vt, e))
        except BaseException as e:
            vt.exc = e
            vt.exc_tb = traceback.format_exc()
        finally:
            vt.finished = True
            self._thread_finished(vt)

    def _tracer(self, frame, event, arg):
        co = frame.f_code
        if co in self.focus or (self.focus_files and co.co_filename.endswith(self.focus_files)):
            return self._local
        return None

    def _local(self, frame, event, arg):
        if event == 'line':
            self.point('line', (frame.f_code.co_name, frame.f_lineno))
        return self._local

    # ------------------------------------------------------------------ choices
    def _pick(self, n, cur_enabled, kind, info, cost_if_alt):
        """Return the index chosen among n options (n > 1)."""
        i = len(self.trace)
        if i < len(self.prefix):
            c = self.prefix[i]
            if not (0 <= c < n):
                self._fail('harness', 'replay divergence: choice %d out of range %d at point %d (%s %r)' % (
                    c, n, i, kind, info))
                raise Abort()
        else:
            c = 0
        self.trace.append(Point(n, c, cur_enabled, kind, info, cost_if_alt))
        return c

    def choose(self, n, label='data', cost=0):
        """Data choice (environment answer); part of the same choice tree."""
        if n <= 1:
            return 0
        self.steps += 1
        return self._pick(n, False, 'data:' + label, None, cost)

    def _enabled(self):
        out = []
        for t in self.threads:
            if t.finished:
                continue
            if t.waiting is None or t.waiting():
                out.append(t)
        return out

    def _timed(self):
        return [t for t in self.threads if not t.finished and t.waiting is not None and t.deadline is not None
                and not t.waiting()]

    def point(self, kind, info=None):
        me = self.current
        if self.aborting:
            raise Abort()
        if me is None or threading.current_thread() is not me.os_thread:
            return  # called from outside a virtual thread (harness setup): not a scheduling point
        self.steps += 1
        if self.monitor is not None:
            self.monitor(self, kind, info)
        if self.steps > self.horizon:
            self._fail('livelock', 'step horizon %d exceeded at %s %r' % (self.horizon, kind, info))
            raise Abort()
        self._reschedule(me, kind, info)

    def _reschedule(self, me, kind, info):
        enabled = self._enabled()
        timed = self._timed() if (self.timeouts_as_choices or not enabled) else []
        if not enabled and not timed:
            if all(t.finished for t in self.threads):
                self.done_evt.set()
                return
            self._fail('deadlock', 'no enabled thread; waiting: %s' % ', '.join(
                '%r on %s' % (t, t.what) for t in self.threads if not t.finished))
            raise Abort()
        cur_enabled = me in enabled
        order = ([me] if cur_enabled else []) + sorted((t for t in enabled if t is not me), key=lambda t: t.tid)
        if not enabled:
            # time passes: earliest deadline first; ties are a choice
            dmin = min(t.deadline for t in timed)
            order = sorted((t for t in timed if t.deadline == dmin), key=lambda t: t.tid)
            fire = True
        else:
            fire = False
            if self.timeouts_as_choices:
                order = order + sorted(timed, key=lambda t: (t.deadline, t.tid))
        if len(order) > 1:
            c = self._pick(len(order), cur_enabled, kind, info, 1 if cur_enabled else 0)
        else:
            c = 0
        nxt = order[c]
        if nxt.waiting is not None and not nxt.waiting():
            # resumed by timeout
            if self.clock is not None and nxt.deadline is not None and nxt.deadline > self.clock.now:
                self.clock.advance_to(nxt.deadline)
            nxt.timed_out = True
        self.log.append((nxt.tid, kind))
        if nxt is not me:
            self._switch(me, nxt)

    def _switch(self, me, nxt):
        self.current = nxt
        nxt.sem.release()
        if me is not None and not me.finished:
            me.sem.acquire()
            if self.aborting:
                raise Abort()

    def block(self, pred, deadline, what):
        """Current thread waits until pred() (True) or deadline (False)."""
        me = self.current
        me.waiting, me.deadline, me.timed_out, me.what = pred, deadline, False, what
        try:
            self.steps += 1
            if self.steps > self.horizon:
                self._fail('livelock', 'step horizon exceeded in block(%s)' % what)
                raise Abort()
            self._reschedule(me, 'block', what)
            return bool(pred())
        finally:
            me.waiting, me.deadline, me.what = None, None, None

    def sleep(self, d):
        """Virtual sleep: a timed wait on a predicate that never becomes true."""
        self.block(lambda: False, self.clock_now() + max(d, 0), 'sleep(%r)' % d)

    def _thread_finished(self, vt):
        if self.aborting:
            if all(t.finished or not t.started for t in self.threads):
                self.done_evt.set()
            return
        try:
            self.current = vt
            enabled = self._enabled()
            timed = self._timed() if not enabled else []
            if not enabled and not timed:
                if all(t.finished for t in self.threads):
                    self.done_evt.set()
                else:
                    self._fail('deadlock', 'no enabled thread after %r ended; waiting: %s' % (vt, ', '.join(
                        '%r on %s' % (t, t.what) for t in self.threads if not t.finished)))
                return
            self._reschedule(vt, 'end', vt.name)
        except Abort:
            pass

    def _fail(self, kind, details):
        if self.failure is None:
            self.failure = (kind, details)
        self.aborting = True
        for t in self.threads:
            if not t.finished:
                t.sem.release()
        if all(t.finished or not t.started for t in self.threads):
            self.done_evt.set()

    # ------------------------------------------------------------------ running
    def run(self, watchdog=120.0):
        """Start: pick the first thread (a choice if several), wait for the end."""
        vthreading.RT.sched = self
        try:
            order = sorted(self._enabled(), key=lambda t: t.tid)
            if not order:
                return
            c = self._pick(len(order), False, 'start', None, 0) if len(order) > 1 else 0
            self.current = order[c]
            order[c].sem.release()
            if not self.done_evt.wait(watchdog):
                self._fail('harness', 'watchdog: execution did not finish in %ss (real blocking primitive?) current=%r steps=%d'
                           % (watchdog, self.current, self.steps))
                self.done_evt.wait(2.0)
                raise HarnessError('execution hung: %s' % (self.failure,))
            # make sure every worker has finished its virtual thread
            if self.aborting:
                for t in self.threads:
                    t.sem.release()
            for t in self.threads:
                if not t.worker.idle.wait(10.0):
                    _WORKERS['workers'] = []          # never reuse a stuck worker
                    raise HarnessError('execution hung: worker of %r did not finish (%s)' % (t, self.failure,))
        finally:
            vthreading.RT.sched = None
        if self.failure and self.failure[0] == 'harness':
            raise HarnessError(self.failure[1])

    def choices(self):
        return [p.chosen for p in self.trace]

    def signature(self):
        return tuple((p.n, p.chosen, p.kind) for p in self.trace)


# ---------------------------------------------------------------------- exploration
def children(trace, prefix_len, bound):
    """All one-more-deviation prefixes of an executed trace (CHESS iterative context bounding)."""
    out = []
    cost = 0
    for i, p in enumerate(trace):
        if i >= prefix_len:
            for alt in range(1, p.n):
                c = cost + p.cost
                if c <= bound:
                    out.append(([q.chosen for q in trace[:i]] + [alt], c))
        if p.chosen != 0:
            cost += p.cost
    return out


_HARNESS = {}


def _run_one(args):
    name, params, prefix, bound = args
    fn = _HARNESS[name]
    part = Part()
    sched = fn(params, prefix, part)      # harness builds world+scheduler, runs, judges, returns scheduler
    kids = children(sched.trace, len(prefix), bound)
    part.count('executions')
    part.count('transitions', sched.steps)
    return part, [k for k, _ in kids], len(sched.trace)


def explore(ctx, name, fn, params, bound, max_executions=None, batch=256):
    """Enumerate every execution of harness `fn(params, prefix, part) -> Scheduler` with at most
    `bound` preemptions.  `fn` must run the execution for the given choice prefix (default choice
    0 afterwards), judge it (part.violation) and return the Scheduler.  Parallel over prefixes."""
    import multiprocessing
    _HARNESS[name] = fn
    frontier = [[]]
    total = 0
    maxpts = 0
    capped = False
    mp = multiprocessing.get_context('fork')
    pool = mp.Pool(ctx.nproc) if ctx.nproc > 1 else None
    try:
        while frontier:
            if max_executions is not None and total + len(frontier) > max_executions:
                frontier = frontier[:max(0, max_executions - total)]
                capped = True
                if not frontier:
                    break
            jobs = [(name, params, p, bound) for p in frontier]
            if pool is not None and len(jobs) > 1:
                results = pool.map(_run_one_guarded, jobs, max(1, min(batch, len(jobs) // (ctx.nproc * 4) or 1)))
            else:
                results = [_run_one(j) for j in jobs]
            frontier = []
            for part, kids, npts in results:
                ctx.merge(part)
                total += 1
                maxpts = max(maxpts, npts)
                frontier.extend(kids)
            if capped:
                break
    finally:
        if pool is not None:
            pool.terminate()
            pool.join()
    if capped:
        ctx.cap('%s: execution cap %d reached at preemption bound %d' % (name, max_executions, bound))
    ctx.cov.setdefault('harnesses', {})[name] = {'params': jsonable(params), 'preemption_bound': bound,
                                                  'executions': total, 'max_choice_points': maxpts,
                                                  'complete': not capped}
    return total


def _run_one_guarded(args):
    try:
        return _run_one(args)
    except BaseException:
        sys.stderr.write('HARNESS ERROR in sched worker %r\n%s\n' % (args[:3], traceback.format_exc()))
        sys.stderr.flush()
        raise


# ---------------------------------------------------------------------- self test
class _Counter(object):
    def __init__(self):
        self.v = 0

    def incr(self):
        t = self.v
        self.v = t + 1


def _toy(params, prefix, part):
    c = _Counter()
    s = Scheduler(prefix, focus=[_Counter.incr.__code__])
    s.spawn(c.incr, 'a')
    s.spawn(c.incr, 'b')
    s.run()
    part.outcome(c.v)
    if c.v != 2:
        part.violation('toy/lost-update', 'counter=%d' % c.v, {'prefix': prefix})
    return s


def _toy_deadlock(params, prefix, part):
    a, b = vthreading.VLock(), vthreading.VLock()

    def t1():
        with a:
            with b:
                pass

    def t2():
        with b:
            with a:
                pass
    s = Scheduler(prefix)
    s.spawn(t1, 't1')
    s.spawn(t2, 't2')
    s.run()
    if s.failure:
        part.violation('toy/' + s.failure[0], s.failure[1], {'prefix': prefix})
    return s


def selftest():
    from vt.core import Ctx
    ok = True
    for bound, expect in ((0, False), (1, True)):
        ctx = Ctx('SELFTEST', silent=True)
        ctx.nproc = 1
        explore(ctx, 'toy', _toy, {}, bound)
        found = any(fp == 'toy/lost-update' for fp in ctx._viol)
        if found != expect:
            print('sched selftest: lost update at bound %d: found=%s expected=%s' % (bound, found, expect))
            ok = False
    ctx = Ctx('SELFTEST', silent=True)
    ctx.nproc = 1
    explore(ctx, 'toy_deadlock', _toy_deadlock, {}, 1)
    if not any(fp == 'toy/deadlock' for fp in ctx._viol):
        print('sched selftest: deadlock toy not reported')
        ok = False
    # determinism: same prefix twice => same signature
    p1, p2 = Part(), Part()
    s1 = _toy({}, [1], p1)
    s2 = _toy({}, [1], p2)
    if s1.signature() != s2.signature():
        print('sched selftest: replay not deterministic')
        ok = False
    return ok
