"""World and engine-E harness of C20 (keyspace switch applied everywhere or reported).

A real Cluster/Session (protocol v4: one HostConnection pool per host; protocol v2: the legacy
HostConnectionPool with `core` connections per host) over the virtual server.  The session issues
the switch (`execute_async('USE ks2')` or `set_keyspace('ks2')`); the server *holds* every USE that
the reactor-side code sends, so the explorer decides each pool's outcome and the completion order.
USEs sent from inside an executor task (blocking ones on replacement connections / new pools) and
everything else are answered by the auto server; with params 'suspend' the USEs of a task are held as
well and may fail (params 'max_task_faults'), in the schedule layer params 'task_faults' makes the
answer to each of them a choice.

Oracle memory kept by the harness (independent of the driver): which pool USEs it failed and how,
the pool situations at the moment the switch reached the session, and for every probe request what
keyspace the *server* had selected on the connection that carried it.

Events (plain data, valid in a rebuilt world):
  ('respond', i, kind)  answer the i-th held request (oldest first): 'set_ks' for the application's USE, for a
                        pool's USE 'ok' | 'invalid' (InvalidRequest) | 'server_error' (the driver defuncts the connection)
  ('defunct', vid)      the connection is lost (its held requests are never answered)
  ('touch', host)       another request of the application is routed to a pool that holds a dead connection: the
                        pool notices (host convicted: pool shut down + on_down queued; else replacement queued)
  ('task', 0)           the executor runs its next task (on_down, pool shutdown, _replace, reconnector, new pool ...)
  ('sched',)            the next scheduled task (reconnection attempt) falls due
  ('timer',)            the earliest connection timer (client-side request timeout) fires
  ('switch', k)         the application issues its k-th switch (params 'switches' lists the target keyspaces); only
                        after the previous switch completed and when the server holds nothing: the retry of a switch
                        that failed (same target) or the next switch (other target)
  ('orphan', host)      a request of the application to that host is not answered in time: the client-side timeout
                        orphans its stream; with connection_class.orphaned_threshold = 1 the connection is now marked
                        for replacement *while it stays open* (the next 'touch' makes HostConnection schedule _replace)
  ('resume',)           (params 'suspend') the executor task that was suspended in a blocking wait continues, now that
                        what it waited for has happened.  With 'suspend' a task is not atomic: it runs in a coroutine
                        of its own; a USE it sends (the blocking one of a new pool / a replacement connection) is held
                        by the server like every other USE, and when the wait for it cannot be satisfied the task is
                        suspended there - exactly where the executor thread would be blocked - while the explorer goes
                        on with the other events (USE results of the application, answers, the next switch).  The held
                        USE of a task is answered with ('respond', i, 'ok') or, at most params 'max_task_faults' times
                        per history, fails: ('respond', i, 'invalid' | 'server_error' | 'lost') - 'lost' = the new
                        connection is reset while the USE is pending.  Such a failure is remembered in `task_failed`,
                        not in `failed`: the USE is not one of a switch.
Canonical state (KsWorld.canon): the USE future (done, exception type, retries, connection), session.keyspace, per
pool (host, class, shut down, _keyspace, connection ids, _is_replacing / open_count / _scheduled_for_creation, trash
size), per host (up, reconnecting), per connection (id, host, in_flight, closed, defunct, driver-side and server-side
keyspace, outstanding streams, marked for replacement, orphaned streams), held requests, scheduled tasks, timers, queued
task labels, and the oracle memory (of the current switch, plus its index, the number of 'orphan' events and the
reported outcomes of the earlier switches; those were judged in the states before the next one was issued and
otherwise live on only in the driver state above), and with 'suspend' the USEs sent so far by executor tasks plus
whether a task is suspended and whether what it waits for has happened, and the failures injected on USEs of tasks.
Which pools have already called back is a function of (pool situations at the switch, USEs answered), both part of
the oracle memory.  checks/c20.py compares dedup against no-dedup runs in the thorough tier (also for a two-switch
configuration).
"""
import gc

import greenlet

from vt import explore, sched
from vt.core import HarnessError
from vt.reqworld import FixedOrderPolicy, ScriptedRetryPolicy
from vt.vthreading import WouldBlock
from vt.world import wire
from vt.world.vworld import World, VServer, HostSpec, VConnection

from cassandra.cluster import ExecutionProfile, EXEC_PROFILE_DEFAULT
from cassandra.policies import ConvictionPolicy, ConstantReconnectionPolicy, HostDistance
from cassandra.query import SimpleStatement

TASK_KINDS = ('invalid', 'server_error', 'lost')    # ways the USE an executor task sends itself can fail
NEW = 'ks2'                         # target of the (first) switch unless params['switches'] says otherwise


def user_use(ks):
    """what the application / Session.set_keyspace sends (the pools send USE "ks2", quoted)"""
    return 'USE %s' % ks


def use_target(q):
    """keyspace named by a USE statement"""
    return q.strip()[4:].strip().strip('"')


SLOW = 'SELECT slow'


class OrphanAtOnce(VConnection):
    """connection class configured so that a single orphaned stream marks the connection for replacement"""
    orphaned_threshold = 1


class NeverConvict(ConvictionPolicy):
    """A connection failure does not mark the host down: the pool keeps living and replaces the
    connection (the 'no open connection, replacement pending' situation)."""
    def add_failure(self, connection_exc):
        return False

    def reset(self):
        pass


def addr(x):
    return x.endpoint.address


class KsWorld(object):
    """params: hosts, proto (4|2), core (v2 connections per host), ks0 (keyspace at connect or None),
    convict (bool), entry ('use'|'set_keyspace'), timeout (None|float), switches (target keyspace of every
    switch of the application, default ('ks2',)), max_orphan (number of 'orphan' events; > 0 selects the
    connection class with orphaned_threshold = 1), renew (the pool of the last host is being (re)created when the
    history starts: its creation task is queued), suspend (executor tasks are coroutines that are suspended in
    blocking waits, see the module docstring), max_task_faults / task_kinds (suspend: how many of the USEs that
    tasks send themselves fail, and how)"""

    def __init__(self, params, issue=True):
        self.p = p = dict(params)
        n = p.get('hosts', 3)
        self.server = VServer([HostSpec('10.0.0.%d' % (i + 1)) for i in range(n)])
        self.w = World(self.server)
        self.w.__enter__()
        try:
            self.retry = ScriptedRetryPolicy()
            self.retry.next = ('RETRY_NEXT_HOST', None)
            self.lbp = FixedOrderPolicy()
            prof = ExecutionProfile(load_balancing_policy=self.lbp, retry_policy=self.retry,
                                    request_timeout=p.get('timeout'))
            kw = dict(execution_profiles={EXEC_PROFILE_DEFAULT: prof}, protocol_version=p.get('proto', 4),
                      reconnection_policy=ConstantReconnectionPolicy(1.0, max_attempts=None))
            if not p.get('convict', True):
                kw['conviction_policy_factory'] = NeverConvict
            if p.get('max_orphan') or p.get('scenario') == 'replace-orphaned':
                kw['connection_class'] = OrphanAtOnce
            self.targets = tuple(p.get('switches') or (NEW,))
            self.cur = -1               # index of the current switch
            self.target = self.targets[0]
            self.cluster = self.w.make_cluster(**kw)
            if p.get('proto', 4) < 3 and p.get('core'):
                self.cluster.set_core_connections_per_host(HostDistance.LOCAL, p['core'])
            self.session = self.cluster.connect(p.get('ks0'), wait_for_all_pools=True)
            self.w.settle()
            self.in_task = False
            self.server.hold = self._hold
            self.server.on_request = self._on_request
            self.w.manual = True
            # oracle memory
            self.failed = {}            # address -> set of failure kinds injected on that pool's USE
            self.answered = []          # (address, kind) of every pool USE answered / lost, in order
            self.n_defunct = 0
            self.n_orphan = 0
            self.earlier = []           # (target, outcome) of the switches before the current one
            self.situation = None       # pool situations when the switch reached the session
            self.probe_log = []         # (vid, address, server keyspace, driver-side keyspace)
            self.touched = []
            self.future = None
            self.base_vid = len(self.w.conns)
            self.hosts = sorted(self.cluster.metadata.all_hosts(), key=addr)
            # tasks as coroutines
            self.suspend = bool(p.get('suspend'))
            self.suspended = None       # (greenlet, predicate) of the task blocked in a wait
            self.task_uses = []         # USE statements sent by executor tasks (suspend mode), in order
            self.task_failed = []       # (connection id, address, kind) of every USE of a task that was failed
            self.creating = None        # address of the host whose pool is being created (params 'renew')
            self._aborting = False
            if self.suspend:
                self._main = greenlet.getcurrent()
                self._plain_pump = self.w.pump
                self.w.pump = self._pump
            if p.get('renew') and issue:
                self.begin_renew()
            if issue:
                self.issue()
        except BaseException:
            self.w.__exit__()
            raise

    def close(self):
        try:
            self.abort_suspended()
        finally:
            self.w.__exit__()

    # ------------------------------------------------------------------ server policy
    def _hold(self, conn, req):
        if req['op'] != 'QUERY':
            return False
        q = req.get('query', '')
        if q == user_use(self.target) or q == SLOW:
            return True         # the application's statement (also when a task re-sends it to the next host)
        if not q.strip().upper().startswith('USE '):
            return False
        # USEs sent by a task are the blocking ones on a replacement connection / a new pool: answered at once,
        # unless tasks are coroutines (then the task is suspended in its wait and the explorer answers)
        if self.in_task and self.suspend:
            req['from_task'] = True         # (the server passes the request record it keeps)
            self.task_uses.append((conn.vid, use_target(q)))
            return True
        return not self.in_task

    def from_task(self, q):
        return bool(q.req.get('from_task'))

    # ------------------------------------------------------------------ executor tasks as coroutines
    def _pump(self, pred=None):
        """World.pump for a world whose executor tasks are coroutines: a wait inside a task that the auto server
        cannot satisfy suspends the task (the executor thread would be blocked there) instead of timing out."""
        self._plain_pump(pred)
        g = greenlet.getcurrent()
        if pred is None or g is self._main or not self.suspend:
            return
        while not pred():
            if self.session._lock._owner is not None:
                raise HarnessError('task blocks while it holds the session lock')
            self.suspended = (g, pred)
            self._main.switch()
            # resumed by the explorer
            self.suspended = None
            if self._aborting:
                raise WouldBlock('world closed while the task was suspended')
            self._plain_pump(pred)

    def _enter_task(self, g):
        self.in_task = True
        try:
            g.switch()          # returns when the task has ended or is suspended; its exceptions surface here
        finally:
            self.in_task = False

    def can_resume(self):
        return self.suspended is not None and bool(self.suspended[1]())

    def resume(self):
        if not self.can_resume():
            raise HarnessError('no task to resume')
        self._enter_task(self.suspended[0])

    def abort_suspended(self):
        if self.suspended is not None:
            g = self.suspended[0]
            self._aborting = True
            for _ in range(20):
                if g.dead:
                    break
                try:
                    g.switch()
                except BaseException:
                    pass
            self.suspended = None

    def begin_renew(self):
        """The pool of the last host is being (re)created, as after the host came back up: the creation task is
        queued on the executor."""
        victim = self.hosts[-1]
        self.session.remove_pool(victim)
        prev, self.w.manual = self.w.manual, False
        try:
            self.w.pump()
        finally:
            self.w.manual = prev
        self.creation_future = self.session.add_or_renew_pool(victim, False)
        if victim in self.session._pools or len(self.w.tasks) != 1 or self.creation_future.done():
            raise HarnessError('setup: expected exactly the pool-creation task')
        self.creating = addr(victim)
        self.base_vid = len(self.w.conns)

    def _on_request(self, server, conn, stream, req):
        if req['op'] == 'QUERY' and req.get('query') == 'SELECT probe':
            self.probe_log.append((conn.vid, addr(conn), conn.server_state.get('keyspace'), conn.keyspace))
        return None

    # ------------------------------------------------------------------ client operations
    def issue(self):
        """The application issues its next switch.  The oracle memory about pool USEs starts afresh: the verdict on
        a switch depends on what happened to the USEs of *that* switch."""
        if self.future is not None:
            out = self.outcome()
            if out is None or [q for q in self.pending() if not self.from_task(q)]:
                raise HarnessError('next switch issued while the previous one is under way')
            self.earlier.append((self.target, out[0] if out[0] == 'ok' else type(out[1]).__name__))
        self.cur += 1
        self.target = self.targets[self.cur]
        self.failed = {}
        self.answered = []
        self.situation = None
        if self.p.get('entry', 'use') == 'use':
            self.future = self.session.execute_async(user_use(self.target))
            return
        captured = []
        real = self.session.execute_async

        def capturing(*a, **k):
            f = real(*a, **k)
            captured.append(f)
            return f
        self.session.execute_async = capturing
        try:
            self.session.set_keyspace(self.target)
        except WouldBlock:
            pass            # the caller is blocked in result(): the explorer now drives the switch
        except Exception:
            # the statement could not be sent to any host: set_keyspace has reported that error
            if len(captured) != 1 or not captured[0]._event.is_set():
                raise
        else:
            raise HarnessError('set_keyspace returned although every USE is held')
        finally:
            del self.session.execute_async
        if len(captured) != 1:
            raise HarnessError('set_keyspace issued %d requests' % len(captured))
        self.future = captured[0]

    def done(self):
        return self.future._event.is_set()

    def outcome(self):
        """None while pending, else ('ok', None) | ('error', exc) -- what execute()/set_keyspace() gives"""
        if not self.done():
            return None
        try:
            self.future.result()
        except Exception as e:
            return ('error', e)
        return ('ok', None)

    def can_switch(self):
        # (a held USE of a suspended task - a pool that is not the session's yet - does not keep the application
        # from its next switch: no switch is under way)
        return self.cur + 1 < len(self.targets) and self.future is not None and self.done() and \
            not [q for q in self.pending() if not self.from_task(q)]

    def orphan(self, hi):
        """A request of the application to host hi is not answered within its timeout (the server never answers
        it): the client gives up and the stream is orphaned on the connection that carried it."""
        n0 = len(self.w.live_timers())
        f = self.session.execute_async(SimpleStatement(SLOW), host=self.hosts[hi], timeout=0.001)
        slow = [q for q in self.server.pending if q.req.get('query') == SLOW]
        timer = f._timer
        if len(slow) != 1 or timer is None or len(self.w.live_timers()) != n0 + 1:
            raise HarnessError('orphan: expected one held request and its timer, got %r / %r' % (slow, timer))
        self.server.pending.remove(slow[0])
        self.w.fire_timer(timer)
        if not f._event.is_set() or not slow[0].conn.orphaned_request_ids:
            raise HarnessError('orphan: the request did not time out / no orphaned stream')
        self.n_orphan += 1
        self.touched.append(f)

    def orphanable(self):
        out = []
        for i, h in enumerate(self.hosts):
            pool = self.session._pools.get(h)
            if pool is not None and not pool.is_shutdown and type(pool).__name__ == 'HostConnection':
                cs = pool.get_connections()
                if cs and not any(c.is_defunct or c.is_closed or c.orphaned_threshold_reached for c in cs):
                    out.append(i)
        return out

    def touch(self, hi):
        """Some other request of the application is routed to host hi."""
        h = self.hosts[hi]
        self.touched.append(self.session.execute_async(SimpleStatement('SELECT touch'), host=h))

    def probe(self):
        """One request per host that has a pool; returns the server-side records of those that were sent."""
        n0 = len(self.probe_log)
        for h in sorted(list(self.session._pools.keys()), key=addr):
            self.session.execute_async(SimpleStatement('SELECT probe'), host=h)
        self.w.deliver_outbox()
        return self.probe_log[n0:]

    # ------------------------------------------------------------------ environment
    def pending(self):
        return sorted(self.server.pending, key=lambda q: q.seq)

    def is_initial(self, q):
        return q.req.get('query') == user_use(self.target)

    def pool_situations(self):
        out = {}
        for h, pool in self.session._pools.items():
            conns = list(pool.get_connections())
            if pool.is_shutdown:
                s = 'pool-shut-down'
            elif not conns:
                s = 'no-connection'
            elif any(c.is_defunct or c.is_closed for c in conns):
                s = 'dead-connection'
            elif any(c.orphaned_threshold_reached for c in conns):
                s = 'orphaned-connection'
            else:
                s = 'open'
            out[addr(h)] = s
        if self.creating is not None and self.creating not in out and self.creation_under_way():
            out[self.creating] = 'pool-being-created'
        return out

    def creation_under_way(self):
        return not self.creation_future.done()

    def respond(self, q, kind):
        a = addr(q.conn)
        ks = use_target(q.req['query'])         # the server selects what the statement names
        if self.from_task(q) and kind != 'ok':
            self.fail_task_use(q, kind)
        elif kind == 'set_ks':
            if self.situation is None:
                self.situation = self.pool_situations()
            q.conn.server_state['keyspace'] = ks
            self.server.respond(q, wire.OP_RESULT, wire.result_set_keyspace(ks), deliver=True)
        elif kind == 'ok':
            q.conn.server_state['keyspace'] = ks
            if not self.from_task(q):
                self.answered.append((a, 'ok'))
            self.server.respond(q, wire.OP_RESULT, wire.result_set_keyspace(ks), deliver=True)
        elif kind == 'invalid':
            self.failed.setdefault(a, set()).add('invalid')
            self.answered.append((a, kind))
            self.server.respond(q, wire.OP_ERROR, wire.error(wire.ERR_INVALID, "Keyspace '%s' does not exist" % ks), deliver=True)
        elif kind == 'server_error':
            self.failed.setdefault(a, set()).add('server_error')
            self.answered.append((a, kind))
            self.server.respond(q, wire.OP_ERROR, wire.error(wire.ERR_SERVER, 'java.lang.RuntimeException'), deliver=True)
        else:
            raise HarnessError('unknown response kind %r' % (kind,))

    def fail_task_use(self, q, kind):
        """A USE that an executor task sent itself (constructor of a pool, catch-up USE of a pool that is being
        created, USE on a replacement connection) fails: error answer or the connection is lost while it is pending.
        Such a USE does not belong to a switch of the application (the pool / connection is not in service yet), so
        it is not a failure the switch has to report: the oracle memory `failed` is untouched, and clause (2) - every
        connection used after a reported success has the target selected on the server - is what judges the driver's
        handling of it."""
        ks = use_target(q.req['query'])
        self.task_failed.append((q.conn.vid, addr(q.conn), kind))
        if kind == 'invalid':
            self.server.respond(q, wire.OP_ERROR, wire.error(wire.ERR_INVALID, "Keyspace '%s' does not exist" % ks), deliver=True)
        elif kind == 'server_error':
            self.server.respond(q, wire.OP_ERROR, wire.error(wire.ERR_SERVER, 'java.lang.RuntimeException'), deliver=True)
        elif kind == 'lost':
            self.server.pending.remove(q)
            q.conn.defunct(OSError(104, 'Connection reset by peer'))
        else:
            raise HarnessError('unknown failure kind %r for the USE of a task' % (kind,))

    def defunct(self, vid):
        c = self.w.conns[vid]
        for q in list(self.server.pending):
            if q.conn is c:
                # the server side of this connection is gone: these will never be answered
                self.server.pending.remove(q)
                if self.from_task(q):
                    self.task_failed.append((c.vid, addr(c), 'lost'))
                elif not self.is_initial(q):
                    self.failed.setdefault(addr(c), set()).add('connection_lost')
                    self.answered.append((addr(c), 'connection_lost'))
        self.n_defunct += 1
        c.defunct(OSError(104, 'Connection reset by peer'))

    def run_task(self):
        if self.suspend:
            if self.suspended is not None:
                raise HarnessError('a task is started while another one is suspended')
            self._enter_task(greenlet.greenlet(lambda: self.w.run_task(0), parent=self._main))
            return
        self.in_task = True
        try:
            self.w.run_task(0)
        finally:
            self.in_task = False

    def fire_sched(self):
        e = min(self.w.sched_tasks, key=lambda t: (t[0], t[1]))
        self.w.fire_sched(e)

    def pool_conns(self):
        seen, out = set(), []
        for h in sorted(list(self.session._pools.keys()), key=addr):
            for c in self.session._pools[h].get_connections():
                if c.vid not in seen:
                    seen.add(c.vid)
                    out.append(c)
        return out

    def touchable(self):
        out = []
        for i, h in enumerate(self.hosts):
            pool = self.session._pools.get(h)
            if pool is not None and not pool.is_shutdown and \
                    any(c.is_defunct or c.is_closed or (c.orphaned_threshold_reached and not pool._is_replacing)
                        for c in pool.get_connections()):
                out.append(i)
        return out

    def drain(self, limit=600):
        """The default continuation: every held request is answered successfully (oldest first), then
        tasks run FIFO, then scheduled tasks fall due.  Client timers are NOT fired.  True iff quiescent."""
        for _ in range(limit):
            self.w.deliver_outbox()
            pend = self.pending()
            if self.can_resume():
                self.resume()
            elif pend:
                self.respond(pend[0], 'set_ks' if self.is_initial(pend[0]) else 'ok')
            elif self.suspended is not None:
                raise HarnessError('a suspended task waits for something that nothing pending can bring about')
            elif self.w.tasks:
                self.run_task()
            elif self.w.sched_tasks:
                self.fire_sched()
            else:
                return True
        return False

    # ------------------------------------------------------------------ canonical state
    def canon(self):
        f = self.future
        fut = (f._event.is_set(), type(f._final_exception).__name__, f._query_retries,
               f._connection.vid if f._connection is not None else None) if f is not None else None
        pools = []
        for h in sorted(list(self.session._pools.keys()), key=addr):
            pool = self.session._pools[h]
            pools.append((addr(h), type(pool).__name__, pool.is_shutdown, pool._keyspace,
                          tuple(c.vid for c in pool.get_connections()), getattr(pool, '_is_replacing', None),
                          getattr(pool, 'open_count', None), getattr(pool, '_scheduled_for_creation', None),
                          len(pool._trash)))
        hosts = tuple((addr(h), h.is_up, h.is_currently_reconnecting()) for h in self.hosts)
        conns = tuple((c.vid, addr(c), c.in_flight, c.is_closed, c.is_defunct, c.keyspace, c.server_state.get('keyspace'),
                       tuple(sorted(c._requests.keys())), c.orphaned_threshold_reached, tuple(sorted(c.orphaned_request_ids)))
                      for c in self.w.conns)
        pend = tuple((q.conn.vid, q.stream, q.req.get('query', '')) for q in self.pending())
        now = self.w.clock.now
        sched = tuple(sorted((round(t[0] - now, 6), getattr(t[2][0], '__qualname__', repr(t[2][0]))) for t in self.w.sched_tasks))
        timers = tuple(round(t.end - now, 6) for t in self.w.live_timers())
        tasks = tuple(t[4] for t in self.w.tasks)
        # earlier switches have been judged in earlier states; nothing of them but the driver state above lives on
        # (their reported outcomes are kept because the observed-outcome keys of the evidence name them)
        memory = (tuple(sorted((a, tuple(sorted(k))) for a, k in self.failed.items())), tuple(sorted(self.answered)),
                  self.n_defunct, tuple(sorted(self.situation.items())) if self.situation else None,
                  self.cur, self.n_orphan, tuple(o for _, o in self.earlier))
        if self.suspend:
            memory += (tuple(self.task_uses), self.suspended is not None, self.can_resume(), tuple(self.task_failed))
        return (fut, self.session.keyspace, tuple(pools), hosts, conns, pend, sched, timers, tasks, memory)


def situation_label(sit):
    if sit is None:
        return 'switch-not-started'
    odd = sorted(set(s for s in sit.values() if s != 'open'))
    return '+'.join(odd) if odd else 'all-pools-open'


class H(explore.Harness):
    """Engine-E harness.  Extra params: kinds (answers to a pool USE), max_defunct, timers (bool),
    nodedup (bool: the canonical state is the history itself)."""
    name = 'c20'

    _cleanups = [0]

    def init(self):
        if self.params.get('max_orphan') and 'server_error' in self.params['kinds']:
            # the driver defuncts the connection: see the remark at 'defunct' in _events
            raise HarnessError("'orphan' events are not combined with the answer 'server_error'")
        # no cyclic collection inside an execution: Session.__del__ of an earlier, dead world calls shutdown(),
        # whose waits would pump the *current* world at a moment the collector chooses
        gc.disable()
        st = KsWorld(self.params)
        st.hist = []
        return st

    def cleanup(self, st):
        st.close()
        H._cleanups[0] += 1
        if H._cleanups[0] % 64 == 0:
            gc.collect()
        gc.enable()

    def _events(self, st):
        p = self.params
        evs = []
        for i, q in enumerate(st.pending()):
            if st.is_initial(q):
                evs.append((('respond', i, 'set_ks'), 0))
            elif st.from_task(q):
                evs.append((('respond', i, 'ok'), 0))
                if len(st.task_failed) < p.get('max_task_faults', 0):
                    # the USE a task sent itself fails: error answer / connection lost while it is pending
                    for kind in p.get('task_kinds', TASK_KINDS):
                        evs.append((('respond', i, kind), 0))
            else:
                for kind in p['kinds']:
                    if kind == 'invalid' and len(st.targets) > 1 and \
                            q.conn.server_state.get('keyspace') == use_target(q.req['query']):
                        # histories with several switches: a node does not reject the USE of the keyspace it
                        # has selected on that very connection (checks/c20.py lists this with ctx.assume)
                        continue
                    evs.append((('respond', i, kind), 0))
        if st.n_defunct < p.get('max_defunct', 1):
            for c in st.pool_conns():
                # (a connection marked for replacement is not lost as well before it has been replaced: any request
                # routed to it, also a probe of the oracle, would spin in HostConnection.borrow_connection until its
                # timeout, which never comes on the virtual clock)
                if not (c.is_closed or c.is_defunct or c.orphaned_threshold_reached):
                    evs.append((('defunct', c.vid), 0))
        if st.n_orphan < p.get('max_orphan', 0):
            for hi in st.orphanable():
                evs.append((('orphan', hi), 0))
        for hi in st.touchable():
            evs.append((('touch', hi), 0))
        if st.can_switch():
            evs.append((('switch', st.cur + 1), 0))
        if st.can_resume():
            evs.append((('resume',), 0))
        if st.w.tasks and st.suspended is None:
            # (one executor worker: the next task starts when the one that is under way has ended)
            evs.append((('task', 0), 0))
        if st.w.sched_tasks:
            evs.append((('sched',), 0))
        if p.get('timers') and st.w.live_timers():
            evs.append((('timer',), 0))
        return evs

    def events(self, st):
        cached = getattr(st, '_events_before_probe', None)
        return cached if cached is not None else self._events(st)

    def canon(self, st):
        cached = getattr(st, '_canon_before_probe', None)
        if cached is not None:
            return cached
        if self.params.get('nodedup'):
            return tuple(st.hist)
        return st.canon()

    def is_quiescent(self, st, evs):
        return not [e for e, _ in evs if e[0] not in ('defunct', 'orphan')]

    def apply(self, st, ev):
        k = ev[0]
        st.hist.append(tuple(ev))
        if k == 'respond':
            st.respond(st.pending()[ev[1]], ev[2])
        elif k == 'defunct':
            st.defunct(ev[1])
        elif k == 'touch':
            st.touch(ev[1])
        elif k == 'orphan':
            st.orphan(ev[1])
        elif k == 'switch':
            if ev[1] != st.cur + 1 or not st.can_switch():
                raise HarnessError('switch %r is not enabled here' % (ev,))
            st.issue()
        elif k == 'task':
            st.run_task()
        elif k == 'resume':
            st.resume()
        elif k == 'sched':
            st.fire_sched()
        elif k == 'timer':
            st.w.fire_timer(st.w.live_timers()[0])
        else:
            raise HarnessError('unknown event %r' % (ev,))
        st.w.deliver_outbox()

    # ------------------------------------------------------------------ oracle
    def check(self, st, part, hist):
        # the monitors below continue the execution (probe requests, default continuation), so what
        # the explorer needs from this state is computed first
        st._events_before_probe = self._events(st)
        st._canon_before_probe = self.canon(st)
        data = {'params': self.params, 'history': hist}
        judge(st, part, data, 'now')
        if not st.drain():
            raise HarnessError('default continuation does not quiesce after %r' % (hist,))
        judge(st, part, data, 'settled')
        out = st.outcome()
        key = (situation_label(st.situation), failure_kinds(st),
               'pending' if out is None else out[0] if out[0] == 'ok' else type(out[1]).__name__)
        if st.cur > 0:
            key = (switch_label(st), 'earlier: ' + ','.join(o for _, o in st.earlier)) + key
        part.outcome(key)
        if st.situation is not None and (st.failed or situation_label(st.situation) != 'all-pools-open' or st.n_defunct
                                         or st.n_orphan or st.cur > 0 or st.task_failed):
            part.mark_nontrivial(repr(st._canon_before_probe))


def failure_kinds(st):
    """failure kinds injected on pool USEs of the current switch, plus (own-USE-<kind>) on USEs of executor tasks"""
    return tuple(sorted(set(k for ks in st.failed.values() for k in ks)) +
                 sorted(set('own-USE-' + k for _, _, k in st.task_failed)))


def switch_label(st):
    """'' for the first switch; for a later one whether it repeats the target of the one before it"""
    if st.cur <= 0:
        return ''
    return 'later-switch-%s-target' % ('same' if st.targets[st.cur] == st.targets[st.cur - 1] else 'other')


def judge(st, part, data, when):
    """Verdict on the current (latest) switch; earlier ones were judged in the states before it was issued."""
    out = st.outcome()
    sw = switch_label(st)
    sw = sw and '/' + sw
    fails = sorted(set(k for ks in st.failed.values() for k in ks))
    if out is None:
        if when == 'settled':
            # (1) every held request answered, every task run, every scheduled task fired: nothing is
            # left that could complete the switch (a client-side timeout is not a completion of it)
            part.violation('C20/never-completes/%s%s' % (situation_label(st.situation), sw),
                           'the switch to %r never completes: pool situations when the USE result reached the session: %r; '
                           'pool USEs answered: %r; nothing is pending, queued or scheduled; earlier switches: %r'
                           % (st.target, st.situation, st.answered, st.earlier), data)
        return
    if out[0] == 'error':
        # (3b, from the driver's own contract of _set_keyspace_for_all_pools: "a dictionary of all errors
        # that occurred, keyed by the Host") -- only for the error produced by the switch itself
        e = out[1]
        msg = str(e)
        if type(e).__name__ == 'ConnectionException' and msg.startswith('Failed to set keyspace on all hosts'):
            missing = [a for a in sorted(st.failed) if a not in msg]
            if missing:
                part.violation('C20/error-omits-failing-pool%s' % sw, 'selecting the keyspace failed on %r but the reported error '
                               'names only: %s' % (sorted(st.failed), msg[:300]), data)
        return
    # reported success
    if fails:
        # (3) one fingerprint per kind of failure that was swallowed
        for k in fails:
            part.violation('C20/success-despite-failed-pool/%s%s' % (k, sw),
                           'selecting the keyspace failed on %r (%r) but the switch to %r reports success; earlier switches: %r'
                           % (sorted(st.failed), st.answered, st.target, st.earlier), data)
        return          # (2) is about switches that rightly report success
    for vid, a, server_ks, driver_ks in st.probe():
        age = 'new-connection' if vid >= st.base_vid else 'old-connection'
        part.count('probes_carried')
        if server_ks != st.target:
            part.violation('C20/stale-keyspace-after-success/%s/%s%s' % (age, situation_label(st.situation), sw),
                           'after the switch to %r reported success a request to %s was carried by connection #%d on which the '
                           'server has keyspace %r selected (driver-side: %r); situations at the switch: %r; earlier switches '
                           '(target, outcome): %r' % (st.target, a, vid, server_ks, driver_ks, st.situation, st.earlier), data)
        elif driver_ks != st.target:
            part.count('probes_driver_view_differs')


# ====================================================================== engine S
def _nested_codes(code, out):
    out.append(code)
    for c in code.co_consts:
        if hasattr(c, 'co_code'):
            _nested_codes(c, out)


def focus_codes(which=None):
    """Every source line of these functions (and of the closures defined in them) is a scheduling point.
    which = 'own-use': the functions in which an executor task sends a USE of its own and waits for the answer, and the
    ones that hand the answer over to the waiting task (pool creation incl. the nested callback of the catch-up USE,
    connection replacement, Connection.set_keyspace_blocking and the ResponseWaiter it blocks on)."""
    import cassandra.cluster as C
    import cassandra.connection as N
    import cassandra.pool as P
    out = []
    if which == 'own-use':
        for fn in (C.Session.add_or_renew_pool, P.HostConnection.__init__, P.HostConnection._replace,
                   P.HostConnection._set_keyspace_for_all_conns, P.HostConnectionPool.__init__,
                   P.HostConnectionPool._set_keyspace_for_all_conns, P.HostConnectionPool._add_conn_if_under_max,
                   P.HostConnectionPool._retrying_replace, N.Connection.set_keyspace_blocking,
                   N.ResponseWaiter.got_response, N.ResponseWaiter.deliver):
            _nested_codes(fn.__code__, out)
        return out
    if which is not None:
        raise HarnessError('unknown focus %r' % (which,))
    for fn in (P.HostConnection.__init__, P.HostConnection._replace, P.HostConnection._set_keyspace_for_all_conns,
               P.HostConnectionPool._set_keyspace_for_all_conns, P.HostConnectionPool._add_conn_if_under_max,
               P.HostConnectionPool._retrying_replace,
               C.Session._set_keyspace_for_all_pools, C.Session.add_or_renew_pool, C.ResponseFuture._set_keyspace_completed,
               N.Connection.set_keyspace_async, N.Connection.set_keyspace_blocking):
        _nested_codes(fn.__code__, out)
    return out


@sched.gc_quiet
def sched_harness(params, prefix, part):
    """One execution: the reactor thread (delivers the USE result to the session, then every answer of the
    auto server) against the executor thread (runs the queued replacement / pool-renewal task, and whatever
    is submitted later) and, when params 'switches' names several targets, the application thread that issues
    the next switch as soon as the previous one has reported its outcome (the result of each of its USE statements
    reaches the client at a moment the scheduler chooses, so a later switch may complete while the executor thread
    is anywhere in the task, e.g. waiting for the answer to the catch-up USE of the pool it is creating).
    params: KsWorld params + scenario ('replace' | 'replace-orphaned' | 'renew'), task_faults (failure kinds: the answer
    to every USE the executor thread sends itself is a choice between success and - once per execution - one of them;
    the reactor delivers it like every other answer, so a preemption can separate any two steps of its hand-over to
    the waiting executor thread), focus (None: the functions of the switch, replacement and pool creation;
    'own-use': see focus_codes)."""
    from vt.connlib import quiet_driver_logs
    quiet_driver_logs()
    st = KsWorld(params, issue=False)
    try:
        victim = st.hosts[-1]
        scenario = params['scenario']
        if scenario == 'replace':
            # the victim pool loses its connection; the pool notices at the next request routed to it
            c = st.session._pools[victim].get_connections()[0]
            st.defunct(c.vid)
            st.touch(len(st.hosts) - 1)
            st.w.deliver_outbox()
            if st.session._pools[victim].get_connections() or not st.w.tasks:
                raise HarnessError('setup: the victim pool still has a connection / no replacement task queued')
        elif scenario == 'replace-orphaned':
            # a request to the victim timed out on the client: its connection is over the orphaned-stream threshold
            # and stays open; the pool schedules the replacement at the next request routed to it
            c = st.session._pools[victim].get_connections()[0]
            st.orphan(len(st.hosts) - 1)
            st.touch(len(st.hosts) - 1)
            st.w.deliver_outbox()
            if st.session._pools[victim].get_connections() != [c] or c.is_closed or len(st.w.tasks) != 1:
                raise HarnessError('setup: expected the open, marked connection and exactly the replacement task')
        elif scenario == 'renew':
            # the pool of the victim host is being (re)created, as after the host came back up
            st.begin_renew()
        else:
            raise HarnessError('unknown scenario %r' % (scenario,))
        st.n_defunct = st.n_orphan = 0
        st.issue()
        pend = st.pending()
        if len(pend) != 1 or not st.is_initial(pend[0]):
            raise HarnessError('setup: expected exactly the held USE statement, got %r' % (pend,))
        # every answer but the result of the application's USE is a success that the reactor delivers in the order
        # of the requests; the moment the USE result reaches the client is a choice: the schedule is the nondeterminism
        st.server.hold = lambda conn, req: req['op'] == 'QUERY' and req.get('query') == user_use(st.target)
        s = sched.Scheduler(prefix, focus=focus_codes(params.get('focus')), horizon=params.get('horizon', 30000),
                            clock=st.w.clock)
        busy = {'reactor': True, 'executor': True}
        net = {'arrived': False, 'delivered': 0, 'to_issue': len(st.targets) - 1, 'lost': set(), 'running': True}
        task_faults = tuple(params.get('task_faults') or ())

        def on_request(server, conn, stream, req):
            # params 'task_faults': how the node answers a USE that the executor thread sends itself (constructor of
            # the pool, catch-up USE, USE on a replacement connection) is a choice: success, or - once per execution -
            # one of the failures listed; 'lost' = instead of an answer the reactor finds the connection reset
            q = req.get('query', '') if req['op'] == 'QUERY' else ''
            if task_faults and net['running'] and q.strip().upper().startswith('USE ') and q != user_use(st.target) \
                    and s.current is not None and s.current.name == 'executor' and not st.task_failed:
                st.task_uses.append((conn.vid, use_target(q)))
                k = s.choose(1 + len(task_faults), 'answer-to-USE-of-task')
                if k:
                    kind = task_faults[k - 1]
                    st.task_failed.append((conn.vid, addr(conn), kind))
                    if kind == 'invalid':
                        return wire.OP_ERROR, wire.error(wire.ERR_INVALID, "Keyspace '%s' does not exist" % use_target(q))
                    if kind == 'server_error':
                        return wire.OP_ERROR, wire.error(wire.ERR_SERVER, 'java.lang.RuntimeException')
                    if kind == 'lost':
                        net['lost'].add(conn.vid)       # (what is queued for this connection is never delivered)
                        return wire.OP_ERROR, wire.error(wire.ERR_SERVER, 'never delivered')
                    raise HarnessError('unknown failure kind %r for the USE of a task' % (kind,))
            return st._on_request(server, conn, stream, req)

        st.server.on_request = on_request

        def deliver_one():
            conn, data = st.server.outbox.popleft()
            if conn.vid in net['lost']:
                if not (conn.is_defunct or conn.is_closed):
                    conn.defunct(OSError(104, 'Connection reset by peer'))
            else:
                conn.feed(data)

        def held():
            return [q for q in st.pending() if st.is_initial(q)]

        def all_delivered():
            return net['delivered'] == len(st.targets) and not net['to_issue']

        def quiet(me):
            other = 'executor' if me == 'reactor' else 'reactor'
            return all_delivered() and not busy[other] and not st.server.outbox and not st.w.tasks

        def arrival():
            # the moment the USE result reaches the client is the scheduler's choice
            net['arrived'] = True

        def reactor():
            while True:
                busy['reactor'] = False
                s.block(lambda: bool(st.server.outbox) or (net['arrived'] and bool(held())) or quiet('reactor'),
                        None, 'reactor idle')
                busy['reactor'] = True
                h = held() if net['arrived'] else []
                if h and (not st.server.outbox or s.choose(2, 'use-result-first') == 1):
                    net['delivered'] += 1
                    st.respond(h[0], 'set_ks')
                elif st.server.outbox:
                    deliver_one()
                else:
                    busy['reactor'] = False
                    return

        def executor():
            while True:
                busy['executor'] = False
                s.block(lambda: bool(st.w.tasks) or quiet('executor'), None, 'executor idle')
                if not st.w.tasks:
                    return
                busy['executor'] = True
                st.w.run_task(0)

        def application():
            # the next switch is issued once the previous one has reported its outcome
            while net['to_issue']:
                s.block(lambda: st.done() and not held(), None, 'application waits for the outcome of its switch')
                st.issue()
                net['to_issue'] -= 1

        s.spawn(arrival, 'use-result-arrives')
        s.spawn(reactor, 'reactor')
        s.spawn(executor, 'executor')
        if net['to_issue']:
            s.spawn(application, 'application')
        s.run()
        net['running'] = False
        st.server.on_request = st._on_request
        data = {'params': params, 'prefix': s.choices()}
        if s.failure:
            part.violation('C20/%s/%s' % (s.failure[0], scenario), s.failure[1], data)
            return s
        for t in s.threads:
            if t.exc is not None:
                raise HarnessError('exception in virtual thread %s: %r\n%s' % (t.name, t.exc, getattr(t, 'exc_tb', '')))
        # back to one thread: anything left runs to quiescence, then the oracle of the history layer
        st.server.hold = st._hold
        if not st.drain():
            raise HarnessError('default continuation does not quiesce after schedule %r' % (s.choices(),))
        judge(st, part, data, 'settled')
        out = st.outcome()
        part.outcome((scenario if len(st.targets) == 1 else '%s, %d switches' % (scenario, len(st.targets)),) +
                     ((failure_kinds(st),) if task_faults else ()) +
                     ('pending' if out is None else out[0] if out[0] == 'ok' else type(out[1]).__name__,
                      tuple(sorted((a, p._keyspace) for a, p in ((addr(h), p) for h, p in st.session._pools.items())))))
        if any(p.chosen for p in s.trace if not p.kind.startswith('data')) or st.task_failed:
            part.mark_nontrivial(repr((scenario, params.get('ks0'), params.get('proto'), st.targets, s.choices())))
        part.sample({'scenario': scenario, 'choices': s.choices(), 'outcome': None if out is None else out[0]}, limit=1)
        return s
    finally:
        st.close()
