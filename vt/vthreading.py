"""Virtual threading primitives used in place of threading.Lock/RLock/Condition/Event/Thread.

Two modes, selected by RT.sched:
  * RT.sched is None  (engine E, single OS thread): nothing ever blocks.  A wait that cannot be
    satisfied first *pumps* the world (RT.world.pump(pred)); if still unsatisfied a timed wait
    advances the virtual clock by its timeout and reports a timeout, an untimed wait raises
    WouldBlock (BaseException, so driver `except Exception` blocks cannot swallow it).
  * RT.sched is a vt.sched.Scheduler (engine S): blocking operations are scheduling points.
"""
import itertools
import threading as _real


class WouldBlock(BaseException):
    """An untimed wait cannot be satisfied in single-threaded mode."""


class RT(object):
    sched = None      # vt.sched.Scheduler or None
    world = None      # vt.world.vworld.World or None (provides pump() and clock)


def _me():
    s = RT.sched
    return s.current if s is not None else 'main'


def _now():
    w = RT.world
    return w.clock.now if w is not None else 0.0


def _wait(pred, timeout, what):
    """Common blocking wait.  Returns True if pred() became true, False on timeout."""
    s = RT.sched
    if s is not None:
        if pred():
            return True
        deadline = None if timeout is None or timeout < 0 else s.clock_now() + timeout
        return s.block(pred, deadline, what)
    # single threaded
    if pred():
        return True
    w = RT.world
    if w is not None:
        w.pump(pred)
        if pred():
            return True
    if timeout is None or timeout < 0:
        raise WouldBlock(what)
    if w is not None:
        # a wait that times out always lets a little more than its timeout pass (loops of the form
        # "remaining = deadline - now; if remaining < 0: break; wait(remaining)" rely on that)
        w.advance_time(timeout + 1e-5)
        w.note_timed_out_wait(what, timeout)
    return False


class VLock(object):
    _ids = itertools.count()

    def __init__(self):
        self._owner = None
        self.vid = next(VLock._ids)

    def acquire(self, blocking=True, timeout=-1):
        s = RT.sched
        if s is not None:
            s.point('acquire', self)
        if self._owner is not None:
            if not blocking:
                return False
            ok = _wait(lambda: self._owner is None, None if timeout in (-1, None) else timeout,
                       'Lock#%d held by %r' % (self.vid, self._owner))
            if not ok:
                return False
        self._owner = _me()
        return True

    def release(self):
        if self._owner is None:
            raise RuntimeError('release unlocked lock')
        self._owner = None

    def locked(self):
        return self._owner is not None

    __enter__ = acquire

    def __exit__(self, *a):
        self.release()


class VRLock(object):
    def __init__(self):
        self._owner = None
        self._count = 0
        self.vid = next(VLock._ids)

    def acquire(self, blocking=True, timeout=-1):
        me = _me()
        if self._owner is not None and self._owner == me:
            self._count += 1
            return True
        s = RT.sched
        if s is not None:
            s.point('acquire', self)
        if self._owner is not None:
            if not blocking:
                return False
            ok = _wait(lambda: self._owner is None, None if timeout in (-1, None) else timeout,
                       'RLock#%d held by %r' % (self.vid, self._owner))
            if not ok:
                return False
        self._owner = me
        self._count = 1
        return True

    def release(self):
        if self._owner != _me():
            raise RuntimeError('cannot release un-acquired lock')
        self._count -= 1
        if self._count == 0:
            self._owner = None

    __enter__ = acquire

    def __exit__(self, *a):
        self.release()

    # Condition support
    def _release_save(self):
        st = (self._owner, self._count)
        self._owner, self._count = None, 0
        return st

    def _acquire_restore(self, st):
        if self._owner is not None:
            _wait(lambda: self._owner is None, None, 'RLock#%d reacquire' % self.vid)
        self._owner, self._count = st

    def _is_owned(self):
        return self._owner == _me()


class VCondition(object):
    def __init__(self, lock=None):
        self._lock = lock if lock is not None else VRLock()
        self.acquire = self._lock.acquire
        self.release = self._lock.release
        self._waiters = []

    def __enter__(self):
        return self._lock.__enter__()

    def __exit__(self, *a):
        return self._lock.__exit__(*a)

    def wait(self, timeout=None):
        token = [False]
        self._waiters.append(token)
        if isinstance(self._lock, VRLock):
            st = self._lock._release_save()
        else:
            self._lock.release()
            st = None
        try:
            ok = _wait(lambda: token[0], timeout, 'Condition.wait')
        finally:
            if not token[0]:
                try:
                    self._waiters.remove(token)
                except ValueError:
                    pass
            if st is not None:
                self._lock._acquire_restore(st)
            else:
                self._lock.acquire()
        return ok

    def wait_for(self, predicate, timeout=None):
        result = predicate()
        endtime = None
        while not result:
            if timeout is not None:
                if endtime is None:
                    endtime = _now() + timeout
                else:
                    timeout = endtime - _now()
                    if timeout <= 0:
                        break
            self.wait(timeout)
            result = predicate()
        return result

    def notify(self, n=1):
        for token in self._waiters[:n]:
            token[0] = True
        del self._waiters[:n]

    def notify_all(self):
        self.notify(len(self._waiters))

    notifyAll = notify_all


class VEvent(object):
    def __init__(self):
        self._flag = False

    def is_set(self):
        return self._flag

    isSet = is_set

    def set(self):
        self._flag = True
        s = RT.sched
        if s is not None:
            s.point('event.set', self)

    def clear(self):
        self._flag = False

    def wait(self, timeout=None):
        s = RT.sched
        if s is not None:
            s.point('event.wait', self)
        if self._flag:
            return True
        return _wait(lambda: self._flag, timeout, 'Event.wait')


class VThread(object):
    """threading.Thread replacement.  In scheduler mode start() spawns a virtual thread; in
    single-threaded mode the target is queued as a world task ('thread:<name>')."""
    _ids = itertools.count(1)

    def __init__(self, group=None, target=None, name=None, args=(), kwargs=None, daemon=None):
        self._target, self._args, self._kwargs = target, args, kwargs or {}
        self.name = name or 'VThread-%d' % next(VThread._ids)
        self.daemon = daemon
        self._started = False
        self._finished = False
        self._vt = None
        self.ident = None

    def run(self):
        if self._target is not None:
            self._target(*self._args, **self._kwargs)

    def _body(self):
        self.ident = _real.get_ident()
        try:
            self.run()
        finally:
            self._finished = True

    def start(self):
        if self._started:
            raise RuntimeError('threads can only be started once')
        self._started = True
        s = RT.sched
        if s is not None:
            self._vt = s.spawn(self._body, self.name)
            s.point('thread.start', self)
        else:
            w = RT.world
            if w is None:
                raise WouldBlock('Thread.start without a world')
            w.add_thread_task(self)

    def join(self, timeout=None):
        if not self._started:
            raise RuntimeError('cannot join thread before it is started')
        _wait(lambda: self._finished, timeout, 'Thread.join %s' % self.name)

    def is_alive(self):
        return self._started and not self._finished

    isAlive = is_alive

    def setDaemon(self, d):
        self.daemon = d
