"""Fake-session harness for cqlengine (C35-C38).

`install_fake(handler=None)` registers a cqlengine default connection whose session is a
`FakeSession`: nothing is connected, every `execute(statement, params, ...)` is recorded as a
`Call` and answered by `handler(call)` (a list of row dicts, or a `FakeResult`), so that
`Model.create/save/update/delete`, query sets and `BatchQuery` run unmodified.

What a cqlengine connection needs from a session (read from cqlengine/connection.py):
`hosts`, `cluster` (`_config_mode`, `profile_manager.default.row_factory`, `protocol_version`,
`register_user_type`), `row_factory`, `encoder` (the real `cassandra.encoder.Encoder`),
`keyspace`, `execute(query, params, timeout=...)`.

`MiniBackend` couples the fake session to `vt.spec.minicql` (the independent interpreter).
"""
from vt.world import install as _install_world

_install_world()

from cassandra.cluster import _ConfigMode            # noqa: E402
from cassandra.encoder import Encoder                # noqa: E402
from cassandra.query import dict_factory             # noqa: E402
from cassandra.cqlengine import connection as cqconn  # noqa: E402
from cassandra.cqlengine import models as cqmodels   # noqa: E402

from vt.core import HarnessError                     # noqa: E402

KEYSPACE = 'ks'


class Call(object):
    """One `session.execute` as cqlengine issued it."""
    __slots__ = ('statement', 'query', 'params', 'routing_key', 'keyspace', 'consistency', 'timeout', 'fetch_size')

    def __init__(self, statement, params, timeout):
        self.statement = statement
        self.query = statement.query_string if hasattr(statement, 'query_string') else statement
        self.params = params
        self.routing_key = getattr(statement, 'routing_key', None)
        self.keyspace = getattr(statement, 'keyspace', None)
        self.consistency = getattr(statement, 'consistency_level', None)
        self.fetch_size = getattr(statement, 'fetch_size', None)
        self.timeout = timeout

    def __repr__(self):
        return 'Call(%r, %r, rk=%r)' % (self.query, self.params, self.routing_key)


class FakeResult(object):
    """The part of ResultSet cqlengine touches: iteration, one(), was_applied, bool/len-free."""

    def __init__(self, rows=None, lwt=False):
        self.current_rows = list(rows or [])
        self.lwt = lwt
        self.column_names = list(self.current_rows[0].keys()) if self.current_rows else None

    def __iter__(self):
        return iter(list(self.current_rows))

    def one(self):
        return self.current_rows[0] if self.current_rows else None

    def all(self):
        return list(self.current_rows)

    @property
    def was_applied(self):
        # same observable contract as ResultSet.was_applied with dict_factory for simple statements
        if len(self.current_rows) != 1:
            raise RuntimeError('LWT result should have exactly one row. This has %d.' % len(self.current_rows))
        return self.current_rows[0]['[applied]']

    def __getitem__(self, i):
        return self.current_rows[i]


class _Profile(object):
    row_factory = staticmethod(dict_factory)
    consistency_level = None


class _ProfileManager(object):
    def __init__(self):
        self.default = _Profile()
        self.default.row_factory = dict_factory


class FakeCluster(object):
    def __init__(self, protocol_version=4):
        self._config_mode = _ConfigMode.LEGACY
        self.profile_manager = _ProfileManager()
        self.protocol_version = protocol_version
        self.registered_udts = []
        self.is_shutdown = False

    def register_user_type(self, keyspace, type_name, klass):
        self.registered_udts.append((keyspace, type_name, klass))

    def shutdown(self):
        self.is_shutdown = True


class FakeSession(object):
    def __init__(self, handler=None, protocol_version=4):
        self.cluster = FakeCluster(protocol_version)
        self.hosts = ['10.0.0.1']
        self.row_factory = dict_factory
        self.keyspace = None
        self.encoder = Encoder()
        self.default_consistency_level = None
        self.calls = []
        self.handler = handler

    def execute(self, query, parameters=None, timeout=None, **kw):
        call = Call(query, parameters, timeout)
        self.calls.append(call)
        if self.handler is None:
            return FakeResult([])
        res = self.handler(call)
        if isinstance(res, FakeResult):
            return res
        return FakeResult(res or [])

    def take(self):
        """Return and clear the calls recorded so far."""
        c, self.calls = self.calls, []
        return c


def install_fake(handler=None, protocol_version=4):
    """(Re)register the default cqlengine connection over a new FakeSession and return it."""
    for name in list(cqconn._connections):
        cqconn._connections.pop(name, None)
    cqconn.cluster = None
    cqconn.session = None
    s = FakeSession(handler, protocol_version)
    cqmodels.DEFAULT_KEYSPACE = KEYSPACE
    cqconn.register_connection('fake', session=s, default=True)
    if cqconn.get_session() is not s:
        raise HarnessError('fake session was not installed as the cqlengine default session')
    return s


def plain(v):
    """Strip cqlengine's rendering wrappers (ValueQuoter/InQuoter) from a context value."""
    from cassandra.cqlengine.statements import ValueQuoter
    if isinstance(v, ValueQuoter):
        return list(v.value)
    return v


def plain_params(params):
    return dict((k, plain(v)) for k, v in (params or {}).items())


class MiniBackend(object):
    """Executes what cqlengine sends on a `vt.spec.minicql.Database`.

    Values are bound from the params dict (python objects), not from rendered text: the text
    encoding of values is C29's subject.  Collections come back as plain set/list/dict, nulls
    as None (what dict_factory rows of the real driver contain, up to container class)."""

    def __init__(self, db):
        self.db = db
        self.log = []

    def __call__(self, call):
        from vt.spec import minicql
        params = plain_params(call.params)
        res = self.db.execute(call.query, params)
        self.log.append((call.query, params, res))
        if isinstance(res, minicql.Applied):
            return FakeResult(res.rows(), lwt=True)
        return FakeResult(res)
