"""TokenAwarePolicy(shuffle_replicas=True) permutes the token map's cached replica list in place."""
import sys
sys.path.insert(0, sys.argv[1] if len(sys.argv) > 1 else '/repo')
import cassandra.policies as pol
from cassandra.metadata import Metadata, Murmur3Token, KeyspaceMetadata
from cassandra.pool import Host
from cassandra.policies import SimpleConvictionPolicy, RoundRobinPolicy, TokenAwarePolicy
from cassandra.query import SimpleStatement

md = Metadata()
hosts = []
for i in range(3):
    h = Host('10.0.0.%d' % (i + 1), SimpleConvictionPolicy, datacenter='dc1', rack='r1')
    h.is_up = True
    hosts.append(h)
    md.add_or_return_host(h)
tokens = {hosts[0]: ['-6000000000000000000'], hosts[1]: ['0'], hosts[2]: ['6000000000000000000']}
md.keyspaces['ks'] = KeyspaceMetadata('ks', True, 'SimpleStrategy', {'replication_factor': '3'})
md.rebuild_token_map('Murmur3Partitioner', tokens)

class C(object):
    metadata = md
key = b'\x00\x00\x00\x01'
ring_order = list(md.get_replicas('ks', key))
pol.shuffle = lambda lst: lst.reverse()          # a deterministic "shuffle"
shuffling = TokenAwarePolicy(RoundRobinPolicy(), shuffle_replicas=True)
plain = TokenAwarePolicy(RoundRobinPolicy(), shuffle_replicas=False)
for p in (shuffling, plain):
    p.populate(C(), hosts)
q = SimpleStatement('select 1', routing_key=key, keyspace='ks')
list(shuffling.make_query_plan(None, q))
after = list(md.get_replicas('ks', key))
plan = list(plain.make_query_plan(None, q))[:3]
if after != ring_order or plan != ring_order:
    print('FAIL: after a shuffling policy ran, the metadata lists replicas as %s (ring order %s); '
          'a non-shuffling policy now plans %s' % ([str(h) for h in after], [str(h) for h in ring_order], [str(h) for h in plan]))
    sys.exit(1)
print('ok: ring order intact')
