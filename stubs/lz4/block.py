"""LZ4 *block* format codec (https://github.com/lz4/lz4/blob/dev/doc/lz4_Block_format.md).

A block is a series of sequences: token (high nibble = literal length, low nibble = match
length - 4, 15 = "more length bytes follow, each 0..255, stop at the first < 255"), literals,
little-endian 16-bit match offset (1..65535, may overlap the output), optional match length bytes.
The last sequence stops after its literals.  Encoder restrictions honoured here: the last 5 bytes
are literals and the last match starts at least 12 bytes before the end of the block.
"""
import struct

MINMATCH = 4
MFLIMIT = 12
LASTLITERALS = 5
MAX_OFFSET = 65535


class LZ4BlockError(Exception):
    pass


def _write_len(out, n):
    while n >= 255:
        out.append(255)
        n -= 255
    out.append(n)


def _emit(out, data, lit_start, lit_end, match_len, offset):
    nlit = lit_end - lit_start
    ml = match_len - MINMATCH if match_len else 0
    out.append((min(nlit, 15) << 4) | (min(ml, 15) if match_len else 0))
    if nlit >= 15:
        _write_len(out, nlit - 15)
    out += data[lit_start:lit_end]
    if match_len:
        out += struct.pack('<H', offset)
        if ml >= 15:
            _write_len(out, ml - 15)


def compress_block(data):
    data = bytes(data)
    n = len(data)
    out = bytearray()
    if n == 0:
        out.append(0)
        return bytes(out)
    table = {}
    anchor = 0
    i = 0
    limit = n - MFLIMIT          # last position at which a match may start
    match_end_limit = n - LASTLITERALS
    while i <= limit:
        key = data[i:i + 4]
        cand = table.get(key)
        table[key] = i
        if cand is None or i - cand > MAX_OFFSET:
            i += 1
            continue
        # extend the match (chunked comparison, then byte-wise)
        m = i + 4
        c = cand + 4
        step = 64
        while m + step <= match_end_limit and data[m:m + step] == data[c:c + step]:
            m += step
            c += step
        while m < match_end_limit and data[m] == data[c]:
            m += 1
            c += 1
        _emit(out, data, anchor, i, m - i, i - cand)
        i = m
        anchor = m
    _emit(out, data, anchor, n, 0, 0)
    return bytes(out)


def decompress_block(src, size):
    src = bytes(src)
    out = bytearray()
    i = 0
    n = len(src)
    if n == 0:
        raise LZ4BlockError('empty block')
    while True:
        if i >= n:
            raise LZ4BlockError('truncated block')
        token = src[i]
        i += 1
        nlit = token >> 4
        if nlit == 15:
            while True:
                if i >= n:
                    raise LZ4BlockError('truncated literal length')
                b = src[i]
                i += 1
                nlit += b
                if b != 255:
                    break
        if i + nlit > n:
            raise LZ4BlockError('literals overrun input')
        out += src[i:i + nlit]
        i += nlit
        if len(out) > size:
            raise LZ4BlockError('output larger than declared size')
        if i == n:
            break
        if i + 2 > n:
            raise LZ4BlockError('truncated offset')
        off = src[i] | (src[i + 1] << 8)
        i += 2
        if off == 0 or off > len(out):
            raise LZ4BlockError('bad match offset')
        ml = token & 15
        if ml == 15:
            while True:
                if i >= n:
                    raise LZ4BlockError('truncated match length')
                b = src[i]
                i += 1
                ml += b
                if b != 255:
                    break
        ml += MINMATCH
        if len(out) + ml > size:
            raise LZ4BlockError('output larger than declared size')
        start = len(out) - off
        if off >= ml:
            out += out[start:start + ml]
        else:
            pat = bytes(out[start:])
            out += (pat * (ml // off + 1))[:ml]
    if len(out) != size:
        raise LZ4BlockError('decompressed %d bytes, declared %d' % (len(out), size))
    return bytes(out)


def compress(source, mode='default', store_size=True, acceleration=1, compression=0, return_bytearray=False):
    blk = compress_block(source)
    if store_size:
        blk = struct.pack('<I', len(source)) + blk
    return bytearray(blk) if return_bytearray else blk


def decompress(source, uncompressed_size=-1, return_bytearray=False):
    source = bytes(source)
    if uncompressed_size is None or uncompressed_size < 0:
        if len(source) < 4:
            raise LZ4BlockError('input too short for a size prefix')
        size = struct.unpack('<I', source[:4])[0]
        source = source[4:]
    else:
        size = uncompressed_size
    if size > (1 << 31) - 1:
        raise LZ4BlockError('declared size too large')
    r = decompress_block(source, size)
    return bytearray(r) if return_bytearray else r


def selftest():
    """Fixed vectors written out by hand from the format document + a round trip sweep."""
    # 'aaaaaaaaaaaaaaaaaaaa' (20 x a): 1 literal, match offset 1 len 14 (token low nibble 10), 5 literals
    v = bytes([0x1a]) + b'a' + b'\x01\x00' + bytes([0x50]) + b'aaaaa'
    assert decompress_block(v, 20) == b'a' * 20, decompress_block(v, 20)
    assert compress_block(b'a' * 20) == v, compress_block(b'a' * 20)
    assert compress(b'') == b'\x00\x00\x00\x00\x00' and decompress(b'\x00\x00\x00\x00\x00') == b''
    # literal-only block with a length extension: 15 + 3 = 18 literals
    lit = bytes(range(18))
    assert decompress_block(bytes([0xf0, 3]) + lit, 18) == lit
    # overlap copy with offset 2: 'abababababab' + 5 literal tail
    v2 = bytes([0x26]) + b'ab' + b'\x02\x00' + bytes([0x50]) + b'vwxyz'
    assert decompress_block(v2, 2 + 10 + 5) == b'ab' * 6 + b'vwxyz'
    import itertools
    for n in range(0, 40):
        for pat in (b'a', b'ab', b'abc', bytes(range(256))):
            d = (pat * (n // len(pat) + 1))[:n]
            assert decompress(compress(d)) == d
    big = (b'0123456789abcdef' * 9000)[:131071]
    assert decompress(compress(big)) == big and len(compress(big)) < 2000
    for bad in (b'', b'\x10', b'\x00\x00', bytes([0x1a]) + b'a' + b'\x02\x00' + bytes([0x50]) + b'aaaaa'):
        try:
            decompress_block(bad, 20)
        except LZ4BlockError:
            pass
        else:
            raise AssertionError('accepted malformed block %r' % bad)
    return True
