"""Pure-Python stand-in for the python-lz4 package (no wheel in this image).

Only what the driver uses: ``lz4.block.compress`` / ``lz4.block.decompress`` with the default
``store_size=True`` layout (4-byte little-endian uncompressed size, then one LZ4 block).
Put on sys.path by vt.core.setup_repo_path (last position, so a real lz4 would win).
"""
from lz4 import block  # noqa: F401

__version__ = '0.0-verif-stub'
