#!/usr/bin/env python3
"""Run the pinned baseline suite on a tree (default /repo) with the verification guard OFF and
compare with /root/.vp/BASELINE.json stable_pass.  Exit 0 iff every stable test passed."""
import json, os, subprocess, sys, tempfile
import xml.etree.ElementTree as ET

repo = sys.argv[1] if len(sys.argv) > 1 else '/repo'
base = json.load(open('/root/.vp/BASELINE.json'))
fd, junit = tempfile.mkstemp(suffix='.xml'); os.close(fd)
env = dict(os.environ)
env.pop('DATASTAX_PYTHON_DRIVER_VERIF', None)
cmd = ['/venv/bin/python', '-m', 'pytest', '-q', '-p', 'no:cacheprovider', '--timeout=900',
       '--continue-on-collection-errors', '--junitxml=' + junit, '-x' if False else '-ra']
p = subprocess.run(cmd, cwd=repo, env=env, stdout=subprocess.PIPE, stderr=subprocess.STDOUT, text=True)
passed = set()
for tc in ET.parse(junit).getroot().iter('testcase'):
    if not any(ch.tag in ('failure', 'error', 'skipped') for ch in tc):
        passed.add('%s::%s' % (tc.get('classname'), tc.get('name')))
os.unlink(junit)
missing = [t for t in base['stable_pass'] if t not in passed]
# wall-clock sensitive tests (twisted timers) can fail when the machine is heavily loaded: give the
# ones that did not pass two more chances, on their own
import time as _t
for attempt in range(6):
    if not missing or len(missing) > 15:
        break
    _t.sleep(3 * attempt)
    ids = []
    for t in missing:
        cls, name = t.split('::')
        parts = cls.split('.')
        ids.append('/'.join(parts[:-1]) + '.py::' + parts[-1] + '::' + name)
    fd, junit = tempfile.mkstemp(suffix='.xml'); os.close(fd)
    subprocess.run(['/venv/bin/python', '-m', 'pytest', '-q', '-p', 'no:cacheprovider', '--timeout=900',
                    '--junitxml=' + junit] + ids, cwd=repo, env=env, stdout=subprocess.PIPE, stderr=subprocess.STDOUT, text=True)
    try:
        for tc in ET.parse(junit).getroot().iter('testcase'):
            if not any(ch.tag in ('failure', 'error', 'skipped') for ch in tc):
                passed.add('%s::%s' % (tc.get('classname'), tc.get('name')))
    except Exception:
        pass
    os.unlink(junit)
    missing = [t for t in base['stable_pass'] if t not in passed]
print(p.stdout.strip().splitlines()[-1])
print('stable_pass: %d/%d passed' % (len(base['stable_pass']) - len(missing), len(base['stable_pass'])))
for m in missing[:40]:
    print('  NOT PASSING:', m)
sys.exit(1 if missing else 0)
