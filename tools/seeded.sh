#!/bin/bash
# seeded.sh [--tier quick|thorough] [--checks "C14 C15"] <dir-with-patch.diff-and-demo.py>...
# Confirms a seeded property-breaking change and runs the property's check against it:
#   1. clone /repo (HEAD + working tree) to a scratch dir outside /repo and /verif
#   2. demo.py on the clean clone must exit 0
#   3. apply patch.diff; pinned baseline on the clone must still pass (350/350)
#   4. demo.py on the patched clone must exit non-zero
#   5. ./check <prop> against the clone must exit 1 with a VIOLATION line  => DETECTED, else MISSED
# The property id is the directory name up to the first '-' (C14-s1 -> C14) unless --checks is given.
# Files may be named patch.diff/demo.py or patchN.diff/demoN.py (then pass PATCH=patch2.diff DEMO=demo2.py).
here="$(cd "$(dirname "${BASH_SOURCE[0]}")/.." && pwd)"
tier=quick; checks=""
while [ $# -gt 0 ]; do
  case "$1" in
    --tier) tier="$2"; shift 2;;
    --checks) checks="$2"; shift 2;;
    *) break;;
  esac
done
PATCH="${PATCH:-patch.diff}"; DEMO="${DEMO:-demo.py}"
rc=0
for dir in "$@"; do
  dir="$(readlink -f "$dir")"; name="$(basename "$dir")"; prop="${name%%-*}"
  scratch="${VERIF_SCRATCH:-/var/tmp/verif-seeded.$$.$name}"
  rm -rf "$scratch"; mkdir -p "$scratch"
  git clone -q /repo "$scratch/tree" || exit 2
  (cd /repo && git diff HEAD) | (cd "$scratch/tree" && git apply --allow-empty 2>/dev/null)
  status=""
  if [ -z "$SEEDED_SKIP_CONFIRM" ]; then
    if [ -f "$dir/$DEMO" ]; then
      (cd "$scratch" && timeout ${SEEDED_DEMO_TIMEOUT:-900} /venv/bin/python "$dir/$DEMO" "$scratch/tree" > "$scratch/demo_clean.out" 2>&1); e0=$?
    else e0=0; fi
  fi
  if ! (cd "$scratch/tree" && git apply "$dir/$PATCH"); then echo "$name: DOES-NOT-APPLY"; rc=1; rm -rf "$scratch"; continue; fi
  if [ -z "$SEEDED_SKIP_CONFIRM" ]; then
    python3 "$here/tools/baseline.py" "$scratch/tree" > "$scratch/baseline.out" 2>&1; eb=$?
    if [ -f "$dir/$DEMO" ]; then
      (cd "$scratch" && timeout ${SEEDED_DEMO_TIMEOUT:-900} /venv/bin/python "$dir/$DEMO" "$scratch/tree" > "$scratch/demo_patched.out" 2>&1); e1=$?
    else e1=1; fi
    status="demo_clean=$e0 baseline=$([ $eb -eq 0 ] && echo pass || echo FAIL) demo_patched=$e1"
    if [ $e0 -ne 0 ] || [ $eb -ne 0 ] || [ $e1 -eq 0 ]; then
      echo "$name: NOT-CONFIRMED ($status) $(tail -1 "$scratch/baseline.out")"; rc=1; rm -rf "$scratch"; continue
    fi
  fi
  for c in ${checks:-$prop}; do
    mkdir -p "$scratch/evidence"
    t0=$(date +%s)
    out="$(VERIF_REPO="$scratch/tree" VERIF_OUT="$scratch/out" VERIF_EVIDENCE_DIR="$scratch/evidence" timeout ${SEEDED_TIMEOUT:-1800} "$here/check" "$c" --tier "$tier" 2>&1)"; e=$?
    t1=$(date +%s)
    n="$(printf '%s\n' "$out" | grep -c '^VIOLATION property='"$c")"
    if [ $e -eq 1 ] && [ "$n" -gt 0 ]; then
      echo "$name: DETECTED by $c/$tier in $((t1-t0))s ($n fingerprints; $status) e.g. $(printf '%s\n' "$out" | grep -m1 'fingerprint:' | sed 's/^ *//')"
    else
      echo "$name: MISSED by $c/$tier (exit $e, $((t1-t0))s; $status)"; rc=1
      printf '%s\n' "$out" | tail -3 | sed 's/^/    /'
    fi
  done
  rm -rf "$scratch"
done
exit $rc
