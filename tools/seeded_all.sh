#!/bin/bash
# seeded_all.sh [names...]  : run tools/seeded.sh for every seeded change (or the named ones), 4 at a time,
# and write the outcome lines to seeded/RESULTS.txt (sorted).  Extra checks for a seed can be given in
# seeded/<name>/checks (one line, e.g. "C14 C15"): the seed counts as detected if any of them reports it.
here="$(cd "$(dirname "${BASH_SOURCE[0]}")/.." && pwd)"
cd "$here"
names=("$@"); [ ${#names[@]} -eq 0 ] && names=($(ls seeded | grep -E '^C[0-9]+-s[0-9]+$'))
tmp="$(mktemp -d /var/tmp/seeded-all.XXXX)"
run_one() {
  n="$1"; extra=""
  [ -f "seeded/$n/checks" ] && extra="--checks \"$(cat seeded/$n/checks)\""
  eval tools/seeded.sh $extra "seeded/$n" > "$2/$n.out" 2>&1
}
export -f run_one
printf '%s\n' "${names[@]}" | xargs -P "${SEEDED_PAR:-4}" -I{} bash -c "run_one {} $tmp"
cat "$tmp"/*.out | grep -E '^C[0-9]+-s[0-9]+: ' | sort > "$tmp/all.txt"
if [ $# -eq 0 ]; then cp "$tmp/all.txt" seeded/RESULTS.txt; fi
cat "$tmp/all.txt"
rm -rf "$tmp"
