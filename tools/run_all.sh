#!/bin/bash
# run_all.sh [quick|thorough] [seed] : run every claimed check's command from MANIFEST.json one after the other,
# print one line per check (exit status, wall seconds, summary line).  Evidence goes to $VERIF_EVIDENCE_DIR if set.
# RUN_ALL_ONLY="C24 C25" restricts the pass to the named checks.
cd "$(dirname "$0")/.."
tier="${1:-quick}"; seed="${2:-0}"
for id in ${RUN_ALL_ONLY:-$(python3 -c "import json;print(' '.join(c['property_id'] for c in json.load(open('MANIFEST.json'))['checks']))")}; do
  t0=$(date +%s)
  out="$(VERIF_SEED=$seed timeout ${RUN_ALL_TIMEOUT:-7200} ./check $id --tier $tier 2>&1)"; e=$?
  t1=$(date +%s)
  echo "$id exit=$e wall=$((t1-t0))s $(printf '%s\n' "$out" | grep -c '^VIOLATION') violations, $(printf '%s\n' "$out" | grep -c '^KNOWN-FINDING') known :: $(printf '%s\n' "$out" | tail -1 | cut -c1-200)"
done
