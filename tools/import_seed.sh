#!/bin/bash
# import_seed.sh Cxx...  : copy /tmp/seed_out/Cxx/{patch,demo,meta}[2] into /verif/seeded/Cxx-s1, Cxx-s2
for id in "$@"; do
  src=/tmp/seed_out/$id
  n=1
  for k in "" 2 3; do
    [ -f $src/patch$k.diff ] || continue
    while [ -d /verif/seeded/$id-s$n ]; do n=$((n+1)); done
    d=/verif/seeded/$id-s$n; mkdir -p $d
    cp $src/patch$k.diff $d/patch.diff
    [ -f $src/demo$k.py ] && cp $src/demo$k.py $d/demo.py
    [ -f $src/meta$k.json ] && cp $src/meta$k.json $d/meta.json
    echo "imported $d"
    n=$((n+1))
  done
done
