#!/usr/bin/env python3
"""seed_table.py: write seeded/RESULTS.md from seeded/RESULTS.txt (output of tools/seeded_all.sh) and the seeds' meta.json."""
import json, os, re, sys
root = os.path.dirname(os.path.dirname(os.path.abspath(__file__)))
res = {}
for line in open(os.path.join(root, 'seeded', 'RESULTS.txt')):
    m = re.match(r'^(C\d+-s\d+): (DETECTED by (C\d+)/(\w+) in \d+s \((\d+) fingerprints.*?e\.g\. fingerprint: (\S+)|MISSED by (C\d+)|NOT-CONFIRMED|DOES-NOT-APPLY)', line)
    if not m:
        continue
    name = m.group(1)
    e = res.setdefault(name, {'detected': [], 'missed': [], 'other': None})
    if m.group(3):
        e['detected'].append((m.group(3), m.group(6)))
    elif m.group(7):
        e['missed'].append(m.group(7))
    else:
        e['other'] = m.group(2).split()[0]
rows = []
for name in sorted(os.listdir(os.path.join(root, 'seeded'))):
    if not re.match(r'^C\d+-s\d+$', name):
        continue
    try:
        meta = json.load(open(os.path.join(root, 'seeded', name, 'meta.json')))
    except Exception:
        meta = {}
    summ = ' '.join(str(meta.get('summary', '')).split())[:170]
    e = res.get(name)
    if e is None:
        verdict = 'not run'
    elif e['detected']:
        verdict = 'DETECTED by ' + ', '.join('%s (`%s`)' % d for d in e['detected'][:2])
    elif e['other']:
        verdict = e['other']
    else:
        verdict = 'MISSED by ' + ', '.join(e['missed'])
    rows.append('| %s | %s | %s |' % (name, summ.replace('|', '\\|'), verdict))
n = len(rows)
det = sum(1 for r in rows if 'DETECTED' in r)
out = ['# Seeded changes and the checks that catch them', '',
       'Written by `tools/seed_table.py` from `seeded/RESULTS.txt` (one `tools/seeded.sh` run per seed: demonstration passes on a clean',
       'clone, pinned baseline 350/350 with the patch, demonstration fails with the patch, then the quick tier of the property\'s check',
       '(and of the checks named in `seeded/<name>/checks`) against the patched clone).  Every seed was confirmed that way when it was',
       'imported; where the last run of a seed skipped the confirmation (`SEEDED_SKIP_CONFIRM=1`, used for re-runs after a check was',
       'strengthened) its line in RESULTS.txt says `confirmed earlier: ...`.', '',
       '%d seeds, %d detected by the quick tier.' % (n, det), '',
       '| seed | change (from its meta.json) | outcome |', '|---|---|---|'] + rows
open(os.path.join(root, 'seeded', 'RESULTS.md'), 'w').write('\n'.join(out) + '\n')
print('%d seeds, %d detected' % (n, det))
