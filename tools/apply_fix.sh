#!/bin/bash
# apply_fix.sh <diff> <message-file>: apply to /repo, run the pinned baseline, commit as one fix: commit
set -e
cd /repo
git diff --quiet || { echo "/repo not clean"; exit 2; }
git apply "$1"
if python3 /verif/tools/baseline.py /repo > /tmp/baseline.out 2>&1; then
  git commit -qa -F "$2"
  echo "committed $(git log --oneline | head -1)"
else
  cat /tmp/baseline.out | tail -5
  git checkout -- .
  echo "REJECTED $1"
  exit 1
fi
