#!/venv/bin/python
"""Regenerate MANIFEST.json from the META dict of every checks/cNN.py (properties without a
check module are listed under not_applicable with the reason given in NOT_CLAIMED or a default)."""
import importlib, json, os, sys
ROOT = os.path.dirname(os.path.dirname(os.path.abspath(__file__)))
sys.path.insert(0, ROOT)
os.chdir(ROOT)

NOT_CLAIMED = {}   # property id -> reason (filled in when a property is deliberately not claimed)
try:
    NOT_CLAIMED.update(json.load(open(os.path.join(ROOT, 'not_claimed.json'))))
except FileNotFoundError:
    pass

HOOK_COMMITS = []
try:
    HOOK_COMMITS = json.load(open(os.path.join(ROOT, 'hook_commits.json')))
except FileNotFoundError:
    pass

props = [json.loads(l) for l in open('properties.jsonl')]
checks, na, engines = [], [], {}
for p in props:
    pid = p['id']
    path = os.path.join(ROOT, 'checks', pid.lower() + '.py')
    if not os.path.exists(path) or pid in NOT_CLAIMED:
        na.append({'property_id': pid, 'reason': NOT_CLAIMED.get(pid, 'check not built yet; not claimed until it is')})
        continue
    # read META without importing the driver
    src = open(path).read()
    ns = {}
    start = src.index('META = {')
    depth = 0
    for i in range(start + 7, len(src)):
        if src[i] == '{': depth += 1
        elif src[i] == '}':
            depth -= 1
            if depth == 0:
                end = i + 1
                break
    exec(src[start:end], ns)
    m = ns['META']
    entry = {
        'property_id': pid,
        'quick_cmd': './check %s --tier quick' % pid,
        'thorough_cmd': './check %s --tier thorough' % pid,
        'evidence_file': 'evidence/%s.json' % pid,
        'replay_cmd_template': './check %s --replay {path}' % pid,
        'engine': m.get('engine', ''),
        'level_claimed': {'category': m['level'], 'text': m['text'], 'design_ref': 'DESIGN.md section 4, ' + m.get('design_ref', pid)},
        'level_note': m['note'],
        'technique': m['technique'],
    }
    checks.append(entry)
    for e in m.get('engine', '').replace('+', ' ').split():
        engines.setdefault(e, []).append(pid)

ENG = {
    'N': ('vt/spec + checks', 'bounded-exhaustive enumeration of inputs / configurations / operation sequences on the real code, judged by an independently written reference model'),
    'E': ('vt/explore.py + vt/world', 'explicit-state breadth-first search over event/fault histories; every transition calls the real handler on real driver objects in a virtual world (clock, executor, sockets, server owned by the explorer)'),
    'S': ('vt/sched.py', 'stateless schedule exploration with iterative preemption bounding: baton-passing threads, scheduling points at every virtual primitive and every source line of the focus functions'),
}
manifest = {
    'version': 1,
    'setup_cmd': './tools/setup.sh',
    'hooks': {
        'guard': 'DATASTAX_PYTHON_DRIVER_VERIF',
        'enable': 'no source hooks are needed: checks import /repo\'s working tree directly and install their seams by rebinding module-level names from outside; ./check exports DATASTAX_PYTHON_DRIVER_VERIF=1 for uniformity',
        'baseline_off_cmd': 'python3 /verif/tools/baseline.py /repo',
        'source_commits': HOOK_COMMITS,
        'add_only': True,
    },
    'engines': [{'name': k, 'path': ENG[k][0], 'serves_properties': v, 'kind_free_text': ENG[k][1]} for k, v in sorted(engines.items()) if k in ENG],
    'checks': checks,
    'notes': 'All checks are exhaustive enumerations within stated bounds, executed on the implementation; see DESIGN.md. known_findings.json lists repaired (fixed:) and recorded (known) defects.',
    'not_applicable': na,
}
if '--write' not in sys.argv:
    print('dry run (pass --write to rewrite MANIFEST.json): checks=%d not_applicable=%d' % (len(checks), len(na)))
    sys.exit(0)
json.dump(manifest, open('MANIFEST.json', 'w'), indent=1)
print('checks=%d not_applicable=%d' % (len(checks), len(na)))
