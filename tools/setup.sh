#!/bin/bash
# Offline setup: nothing to build; verify the interpreter and the framework self-test.
set -e
cd "$(dirname "$0")/.."
/venv/bin/python -c "import sys; sys.path.insert(0,'/repo'); import cassandra, cassandra.policies; print('driver', cassandra.__version__)"
/venv/bin/python -m vt.selftest
