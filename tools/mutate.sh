#!/bin/bash
# mutate.sh <mutant.diff>...   Show that a check can fail: for each patch under /verif/mutants
# (named <Cxx>-...), clone /repo's HEAD + working tree into a scratch directory outside /repo and
# /verif, apply the patch there, run the pinned baseline on the clone (a mutant the repository's own
# tests notice is rejected as unrealistic), run the property's quick check against the clone
# (VERIF_REPO) and expect exit 1 with a VIOLATION line.  /repo is never touched; the clone is removed.
here="$(cd "$(dirname "${BASH_SOURCE[0]}")/.." && pwd)"
scratch="${VERIF_SCRATCH:-/var/tmp/verif-mutate.$$}"
rc=0
for diff in "$@"; do
  diff="$(readlink -f "$diff")"; name="$(basename "$diff" .diff)"; prop="${name%%-*}"
  rm -rf "$scratch"; mkdir -p "$scratch"
  git clone -q /repo "$scratch/tree" || exit 2
  (cd /repo && git diff HEAD) | (cd "$scratch/tree" && git apply --allow-empty 2>/dev/null)
  if ! (cd "$scratch/tree" && git apply "$diff"); then echo "$name: DOES-NOT-APPLY"; rc=1; continue; fi
  if [ -z "$MUTATE_SKIP_BASELINE" ] && ! python3 "$here/tools/baseline.py" "$scratch/tree" > "$scratch/baseline.out" 2>&1; then
    echo "$name: REJECTED (baseline notices it: $(tail -1 "$scratch/baseline.out"))"; continue
  fi
  mkdir -p "$scratch/evidence"; out="$(VERIF_REPO="$scratch/tree" VERIF_OUT="$scratch/out" VERIF_EVIDENCE_DIR="$scratch/evidence" "$here/check" "$prop" --tier quick 2>&1)"; e=$?
  n="$(printf '%s\n' "$out" | grep -c '^VIOLATION property='"$prop")"
  if [ $e -eq 1 ] && [ "$n" -gt 0 ]; then
    echo "$name: DETECTED ($n fingerprints) e.g. $(printf '%s\n' "$out" | grep -m1 'fingerprint:' | sed 's/^ *//')"
  else
    echo "$name: MISSED (exit $e)"; rc=1
  fi
done
rm -rf "$scratch"
exit $rc
